"""pycv.solve -- discharge one verification condition, with back-end fall-back.

Verdicts: 'discharged' (unsat), 'refuted' (sat, with model), 'undecided'.
"""
from __future__ import annotations

import os
import subprocess
import tempfile
import time
from fractions import Fraction

import z3


def _num_to_str(v):
    try:
        if z3.is_int_value(v):
            return str(v.as_long())
        if z3.is_rational_value(v):
            return str(v.as_fraction())
        if z3.is_algebraic_value(v):
            return str(v.approx(20).as_fraction())
        if z3.is_true(v):
            return "True"
        if z3.is_false(v):
            return "False"
    except Exception:       # pragma: no cover
        pass
    return str(v)


def model_dict(model, inputs):
    out = {}
    for name, c in inputs.items():
        try:
            out[name] = _num_to_str(model.eval(c, model_completion=True))
        except Exception:   # pragma: no cover
            out[name] = "?"
    return out


def parse_value(s):
    """Inverse of _num_to_str for numbers/bools."""
    if s == "True":
        return True
    if s == "False":
        return False
    return Fraction(s)


def _smtlib(pc, goal):
    s = z3.Solver()
    for p in pc:
        s.add(p)
    s.add(z3.Not(goal))
    return "(set-logic ALL)\n" + s.to_smt2()


def _external(cmd, text, timeout_s):
    with tempfile.NamedTemporaryFile("w", suffix=".smt2", delete=False, dir=os.environ.get("PYCV_TMP", None)) as f:
        f.write(text)
        path = f.name
    try:
        r = subprocess.run(cmd + [path], capture_output=True, text=True, timeout=timeout_s + 5)
        out = r.stdout.strip().splitlines()
        return out[0].strip() if out else "unknown"
    except subprocess.TimeoutExpired:
        return "unknown"
    finally:
        os.unlink(path)


def discharge(pc, goal, inputs, timeout_ms=10000, fallbacks=True):
    """-> dict(status, backend, time_s, model)"""
    t0 = time.time()
    g = z3.simplify(goal)
    if z3.is_true(g):
        return dict(status="discharged", backend="z3-simplify", time_s=time.time() - t0, model=None)
    s = z3.Solver()
    s.set("timeout", timeout_ms)
    for p in pc:
        s.add(p)
    s.add(z3.Not(g))
    r = s.check()
    if r == z3.unsat:
        return dict(status="discharged", backend="z3-5.1(api)", time_s=time.time() - t0, model=None)
    if r == z3.sat:
        return dict(status="refuted", backend="z3-5.1(api)", time_s=time.time() - t0,
                    model=model_dict(s.model(), inputs))
    if fallbacks:
        text = _smtlib(pc, g)
        to_s = max(1, timeout_ms // 1000)
        for name, cmd in (("cvc5-1.0.3", ["/usr/bin/cvc5", f"--tlimit={timeout_ms}", "--nl-ext-tplanes"]),
                          ("z3-4.8.12", ["/usr/bin/z3", f"-T:{to_s}"])):
            if not os.path.exists(cmd[0]):
                continue
            ans = _external(cmd, text, to_s)
            if ans == "unsat":
                return dict(status="discharged", backend=name, time_s=time.time() - t0, model=None)
            if ans == "sat":
                # no model extraction from the CLI: candidate only
                return dict(status="refuted", backend=name, time_s=time.time() - t0, model={})
    return dict(status="undecided", backend="z3-5.1(api)+cvc5+z3-4.8", time_s=time.time() - t0, model=None)
