"""pycv.solve -- discharge one verification condition, with back-end fall-back.

Verdicts: 'discharged' (unsat), 'refuted' (sat, with model), 'undecided'.
"""
from __future__ import annotations

import os
import subprocess
import tempfile
import time
from fractions import Fraction

import z3


def _num_to_str(v):
    try:
        if z3.is_int_value(v):
            return str(v.as_long())
        if z3.is_rational_value(v):
            return str(v.as_fraction())
        if z3.is_algebraic_value(v):
            return str(v.approx(20).as_fraction())
        if z3.is_true(v):
            return "True"
        if z3.is_false(v):
            return "False"
    except Exception:       # pragma: no cover
        pass
    return str(v)


def model_dict(model, inputs):
    out = {}
    for name, c in inputs.items():
        try:
            out[name] = _num_to_str(model.eval(c, model_completion=True))
        except Exception:   # pragma: no cover
            out[name] = "?"
    return out


def parse_value(s):
    """Inverse of _num_to_str for numbers/bools."""
    if s == "True":
        return True
    if s == "False":
        return False
    return Fraction(s)


def _smtlib(pc, goal):
    s = z3.Solver()
    for p in pc:
        s.add(p)
    s.add(z3.Not(goal))
    return "(set-logic ALL)\n" + s.to_smt2()


def _external(cmd, text, timeout_s):
    with tempfile.NamedTemporaryFile("w", suffix=".smt2", delete=False, dir=os.environ.get("PYCV_TMP", None)) as f:
        f.write(text)
        path = f.name
    try:
        r = subprocess.run(cmd + [path], capture_output=True, text=True, timeout=timeout_s + 5)
        out = r.stdout.strip().splitlines()
        return out[0].strip() if out else "unknown"
    except subprocess.TimeoutExpired:
        return "unknown"
    finally:
        os.unlink(path)


class TooManyApps(Exception):
    pass


def hard_check(s, timeout_ms, *assumptions):
    """solver.check under the solver's soft timeout (tactic solvers are wrapped in TryFor by their creators)"""
    try:
        return s.check(*assumptions)
    except z3.Z3Exception:
        return z3.unknown


def ackermannize(fs):
    """Replace uninterpreted applications by fresh constants + congruence constraints (equisatisfiable)."""
    apps = {}
    seen = set()

    def walk(e):
        if e.get_id() in seen:
            return
        seen.add(e.get_id())
        if z3.is_app(e):
            d = e.decl()
            if d.kind() == z3.Z3_OP_UNINTERPRETED and e.num_args() > 0:
                apps.setdefault(d.name(), {})[e.get_id()] = e
            for ch in e.children():
                walk(ch)
    for f in fs:
        walk(f)
    if not apps:
        return list(fs), []
    if sum(len(d) for d in apps.values()) > 40:
        raise TooManyApps()
    subs = []
    extra = []
    for name, d in sorted(apps.items()):
        items = list(d.values())
        consts = [z3.Const(f"{name}#{i}", it.sort()) for i, it in enumerate(items)]
        subs += list(zip(items, consts))
        for i in range(len(items)):
            for j in range(i + 1, len(items)):
                eqargs = z3.And(*[a == b for a, b in zip(items[i].children(), items[j].children())])
                extra.append(z3.Implies(eqargs, consts[i] == consts[j]))
    # innermost-first substitution: repeat until no uninterpreted application is left
    def sub(e):
        for _ in range(6):
            e2 = z3.substitute(e, *subs)
            if e2.eq(e):
                break
            e = e2
        return e
    return [sub(f) for f in fs] + [sub(e) for e in extra], subs


_NL_CACHE = {}
_SIMP_CACHE = {}


def _simp(f):
    """z3.simplify with a cache: puts hypotheses and goals into the same normal form (argument order of products,
    sums), so that identical nonlinear terms are recognised as identical by the linear abstraction"""
    k = f.get_id()
    hit = _SIMP_CACHE.get(k)
    if hit is None:
        if len(_SIMP_CACHE) > 50000:
            _SIMP_CACHE.clear()
        hit = (f, z3.simplify(f))
        _SIMP_CACHE[k] = hit
    return hit[1]


def _nonlinear_nodes(f):
    """nonlinear multiplications / divisions in a formula (cached per formula)"""
    fid = f.get_id()
    hit = _NL_CACHE.get(fid)
    if hit is not None:
        return hit[1]
    out = {}
    seen = set()
    stack = [f]
    while stack:
        e = stack.pop()
        eid = e.get_id()
        if eid in seen:
            continue
        seen.add(eid)
        if not z3.is_app(e):
            continue
        k = e.decl().kind()
        n = e.num_args()
        if k == z3.Z3_OP_MUL:
            nonnum = 0
            for i in range(n):
                a = e.arg(i)
                if not (z3.is_rational_value(a) or z3.is_int_value(a)):
                    nonnum += 1
            if nonnum >= 2:
                out[eid] = e
        elif k == z3.Z3_OP_DIV and n == 2:
            b = e.arg(1)
            if not (z3.is_rational_value(b) or z3.is_int_value(b)):
                out[eid] = e
        for i in range(n):
            stack.append(e.arg(i))
    res = list(out.values())
    if len(_NL_CACHE) > 20000:
        _NL_CACHE.clear()
    _NL_CACHE[fid] = (f, res)
    return res


def _linear_abstraction(pc, g, timeout_ms):
    """Sound for proving: z3 with nonlinear arithmetic lemmas switched off treats every nonlinear product/quotient
    as an opaque term.  Discharges the obligations that follow by matching hypotheses (most frame/invariant VCs)
    quickly; anything but `unsat` means 'not decided here'."""
    s = z3.Solver()
    s.set("smt.arith.nl", False)
    s.set("timeout", timeout_ms)
    s.add(*pc)
    s.add(z3.Not(g))
    if hard_check(s, timeout_ms) == z3.unsat:
        return dict(status="discharged", backend="z3-5.1(arith.nl=false)", model=None)
    return None


def quick_linear(pc, g, timeout_ms):
    """discharged-by-matching attempt only (no nonlinear reasoning); None if it does not succeed"""
    gs = z3.simplify(g)
    if z3.is_true(gs):
        return dict(status="discharged", backend="z3-simplify", model=None, time_s=0.0)
    t0 = time.time()
    la = _linear_abstraction(pc, gs, max(1000, timeout_ms // 4))
    if la is None:
        return None
    la["time_s"] = time.time() - t0
    return la


def _nlsat(pc, g, inputs, timeout_ms):
    try:
        fs, subs = ackermannize(list(pc) + [z3.Not(g)])
    except TooManyApps:
        return None
    try:
        s = z3.TryFor(z3.Then(z3.Tactic("simplify"), z3.Tactic("purify-arith"), z3.Tactic("qfnra-nlsat")), timeout_ms).solver()
        s.set("timeout", timeout_ms)
        s.add(*fs)
        r = hard_check(s, timeout_ms)
    except z3.Z3Exception:
        return None
    if r == z3.unsat:
        return dict(status="discharged", backend="z3-5.1(ackermann+qfnra-nlsat)", model=None)
    if r == z3.sat:
        m = s.model()
        ins = {}
        for k, e in inputs.items():
            e2 = e
            if subs:
                for _ in range(6):
                    e3 = z3.substitute(e2, *subs)
                    if e3.eq(e2):
                        break
                    e2 = e3
            ins[k] = e2
        return dict(status="refuted", backend="z3-5.1(ackermann+qfnra-nlsat)", model=model_dict(m, ins))
    return None


def _realizable_units_model(s, inputs, timeout_ms):
    """a counter-model in which every symbolic unit has the SI factor of a real unit of its kind (better replays)"""
    from . import spec
    cons = []
    for k, e in inputs.items():
        if k.endswith("#fac") and z3.is_app(e) and e.decl().name().startswith("fac_"):
            base = e.decl().name()[4:]
            vals = sorted(set(v for u, v in spec.SI_TABLE.get(base, {}).items() if u not in ("Ndm", "Ncm", "Nmm")))
            if vals:
                cons.append(z3.Or(*[e == z3.RealVal(f"{v.numerator}/{v.denominator}") for v in vals]))
    if not cons:
        return None
    s.push()
    try:
        s.set("timeout", min(timeout_ms, 3000))
        s.add(*cons)
        if s.check() == z3.sat:
            return s.model()
    except z3.Z3Exception:
        pass
    finally:
        s.pop()
    return None


def _feasible_by_guess(pc, inputs, tries=6):
    """model of pc with every symbolic unit fixed to a real unit (trial 0: the SI units) and, from trial 2 on, the integer
    inputs fixed as well; None if no trial is satisfiable within its small budget"""
    import random
    from . import spec
    rng = random.Random(12345)
    facs = [(k, e) for k, e in inputs.items() if k.endswith("#fac") and z3.is_app(e) and e.decl().name().startswith("fac_")]
    # ... and every other unit-factor application in the formula (units held in the abstract STATE are not inputs)
    have = {e.get_id() for _, e in facs}
    seen, stack = set(), list(pc)
    while stack:
        e = stack.pop()
        if e.get_id() in seen:
            continue
        seen.add(e.get_id())
        if z3.is_app(e):
            if e.decl().kind() == z3.Z3_OP_UNINTERPRETED and e.decl().name().startswith("fac_") and e.num_args() == 1 \
                    and e.get_id() not in have and not z3.is_int_value(e.arg(0)):
                have.add(e.get_id())
                facs.append((f"state#{len(facs)}", e))
            stack.extend(e.children())
    ints = [(k, e) for k, e in inputs.items() if not k.endswith("#fac") and z3.is_expr(e) and e.sort() == z3.IntSort() and not k.startswith("u_")]
    for t in range(tries + 4):
        s = z3.Solver()
        s.set("timeout", 30000 if t < 2 or t >= tries else 10000)     # idle: 0.1 - 4 s when satisfiable; generous, only failing clauses get here
        s.add(*pc)
        for k, e in facs:
            if k.startswith("state#") and t < 2:
                continue          # the first two trials fix the units of the INPUTS only (as before)
            vals = sorted(set(v for u, v in spec.SI_TABLE.get(e.decl().name()[4:], {}).items() if u not in ("Ndm", "Ncm", "Nmm")))
            if not vals:
                continue
            if t >= tries + 2:
                # last two trials: every unit factor ranges over the factors of the real units (a finite case split for the solver)
                s.add(z3.Or(*[e == z3.RealVal(f"{v.numerator}/{v.denominator}") for v in vals]))
                continue
            v = 1 if (t % 2 == 0 and 1 in vals) else rng.choice(vals)
            s.add(e == z3.RealVal(f"{v.numerator}/{v.denominator}") if hasattr(v, "numerator") else e == v)
        if t < tries or t == tries + 2:           # trials tries, tries+1 and tries+3 leave the integer inputs free
            for k, e in ints:
                s.add(e == rng.choice((10, 12, 20, 30, 1, 2, 17) if t else (20, 12)))
        try:
            if s.check() == z3.sat:
                return s.model()
        except z3.Z3Exception:
            pass
    return None


def refute_with_hint(pc, goal, facts, inputs, timeout_ms=20000):
    """A cut (facts |- goal) failed.  Its counter-model (of facts and not goal) is only a HINT; a refutation of the obligation
    needs a model of the whole path condition and not goal.  The hint's values for the atoms of the cut are imposed on the
    full query -- most nonlinear terms become ground, so the solver answers quickly; sat => a genuine counter-model."""
    t0 = time.time()
    try:
        s1 = z3.Solver()
        s1.set("timeout", 5000)
        s1.add(*facts)
        s1.add(z3.Not(goal))
        if s1.check() != z3.sat:
            return None
        m1 = s1.model()
        atoms = {}
        stack = list(facts) + [goal]
        seen = set()
        while stack:
            e = stack.pop()
            if e.get_id() in seen:
                continue
            seen.add(e.get_id())
            if z3.is_app(e):
                if e.decl().kind() == z3.Z3_OP_UNINTERPRETED and e.sort().kind() in (z3.Z3_INT_SORT, z3.Z3_REAL_SORT, z3.Z3_BOOL_SORT):
                    atoms[e.get_id()] = e
                stack.extend(e.children())
        for attempt in (0, 1):
            s2 = z3.Solver()
            s2.set("timeout", timeout_ms)
            s2.add(*pc)
            s2.add(z3.Not(goal))
            for a in atoms.values():
                if attempt == 1 and a.num_args() == 0 and a.sort().kind() != z3.Z3_BOOL_SORT and not str(a).startswith(("k!", "h")):
                    continue          # second attempt: impose only the applications (unit factors ...), leave the plain variables free
                s2.add(a == m1.eval(a, model_completion=True))
            if s2.check() == z3.sat:
                return dict(status="refuted", backend="z3-5.1(api, cut counter-model as hint)", time_s=time.time() - t0,
                            model=model_dict(s2.model(), inputs), units_realizable=False)
    except z3.Z3Exception:
        return None
    return None


def discharge(pc, goal, inputs, timeout_ms=10000, fallbacks=True):
    r = _discharge(pc, goal, inputs, timeout_ms, fallbacks)
    if r["status"] == "refuted" and not r.get("units_realizable") and any(k.endswith("#fac") for k in inputs):
        # look for a counter-model whose symbolic units are real units (replayable natively)
        try:
            s = z3.Solver()
            s.set("timeout", 3000)
            s.add(*pc)
            s.add(z3.Not(goal))
            m2 = _realizable_units_model(s, inputs, 3000)
            if m2 is None:
                fs, subs = ackermannize(list(pc) + [z3.Not(goal)])
        except (z3.Z3Exception, TooManyApps):
            m2 = None
        if m2 is not None:
            r["model"] = model_dict(m2, inputs)
            r["units_realizable"] = True
    return r


def _discharge(pc, goal, inputs, timeout_ms=10000, fallbacks=True):
    """-> dict(status, backend, time_s, model)"""
    t0 = time.time()
    g = z3.simplify(goal)
    if z3.is_true(g):
        return dict(status="discharged", backend="z3-simplify", time_s=time.time() - t0, model=None)
    if z3.is_false(g):
        gm = _feasible_by_guess(pc, inputs)
        if gm is not None:
            return dict(status="refuted", backend="z3-5.1(api, guessed units)", time_s=time.time() - t0,
                        model=model_dict(gm, inputs), units_realizable=True)
    if len(pc) > 30:
        la = _linear_abstraction(pc, g, max(500, timeout_ms // 4))
        if la is not None:
            la["time_s"] = time.time() - t0
            return la
    if z3.is_false(g):
        # the clause failed at the Python level on this path: the only question is whether the path is feasible.
        # (1) guess-and-check: fixing the symbolic unit factors (and then the integer inputs) to concrete values makes the
        #     path condition (nearly) linear; a model of the strengthened formula is a model of the path condition.
        # (2) otherwise one call of the full solver with a generous budget (verdicts must not flip when the machine is busy).
        s = z3.Solver()
        s.set("timeout", 6 * timeout_ms)
        s.add(*pc)
        r = hard_check(s, 6 * timeout_ms)
        if r == z3.unsat:
            return dict(status="discharged", backend="z3-5.1(api)", time_s=time.time() - t0, model=None)
        if r == z3.sat:
            m = s.model()
            m2 = _realizable_units_model(s, inputs, timeout_ms)
            return dict(status="refuted", backend="z3-5.1(api)", time_s=time.time() - t0,
                        model=model_dict(m2 or m, inputs), units_realizable=bool(m2))
    s = z3.Solver()
    s.set("timeout", max(500, timeout_ms // 5))
    for p in pc:
        s.add(p)
    s.add(z3.Not(g))
    r = hard_check(s, max(500, timeout_ms // 5))
    if r == z3.unknown:
        nl = _nlsat(pc, g, inputs, timeout_ms)
        if nl is not None:
            nl["time_s"] = time.time() - t0
            return nl
        s.set("timeout", timeout_ms)
        r = hard_check(s, timeout_ms)
    if r == z3.unsat:
        return dict(status="discharged", backend="z3-5.1(api)", time_s=time.time() - t0, model=None)
    if r == z3.sat:
        m = s.model()
        m2 = _realizable_units_model(s, inputs, timeout_ms)
        return dict(status="refuted", backend="z3-5.1(api)", time_s=time.time() - t0,
                    model=model_dict(m2 or m, inputs), units_realizable=bool(m2))
    if fallbacks and not os.environ.get('PYCV_NO_FALLBACK'):
        text = _smtlib(pc, g)
        to_s = max(1, timeout_ms // 1000)
        for name, cmd in (("cvc5-1.0.3", ["/usr/bin/cvc5", f"--tlimit={timeout_ms}", "--nl-ext-tplanes"]),
                          ("z3-4.8.12", ["/usr/bin/z3", f"-T:{to_s}"])):
            if not os.path.exists(cmd[0]):
                continue
            ans = _external(cmd, text, to_s)
            if ans == "unsat":
                return dict(status="discharged", backend=name, time_s=time.time() - t0, model=None)
            if ans == "sat":
                # no model extraction from the CLI: candidate only
                return dict(status="refuted", backend=name, time_s=time.time() - t0, model={})
    # last resort before "undecided": look for a counter-model with every symbolic unit fixed to a real unit (and then the
    # integer inputs fixed): the strengthened formula is (nearly) linear; a model of it is a model of pc and not(goal)
    try:
        gm = _feasible_by_guess(list(pc) + [z3.Not(g)], inputs)
    except z3.Z3Exception:
        gm = None
    if gm is not None:
        return dict(status="refuted", backend="z3-5.1(api, guessed units)", time_s=time.time() - t0,
                    model=model_dict(gm, inputs), units_realizable=True)
    d = os.environ.get("PYCV_DUMP_UNDECIDED")
    if d:
        os.makedirs(d, exist_ok=True)
        with open(os.path.join(d, f"vc_{abs(hash(str(g))) % 10**8}.smt2"), "w") as f:
            f.write(_smtlib(pc, g))
    return dict(status="undecided", backend="z3-5.1(api)+cvc5+z3-4.8", time_s=time.time() - t0, model=None)
