"""pycv.explore -- exhaustive path enumeration by decision replay + VC collection."""
from __future__ import annotations

import time
import traceback

import z3

from . import sym
from .solve import discharge
from .sym import Ctx, EngineError, PathEnd, as_bool_term


class Collector:
    """Receives the obligations of one path."""

    def __init__(self, c: Ctx):
        self.c = c
        self.items = []      # (clause, goal_term, pc_snapshot, props, note)
        self.covers = set()

    def prove(self, clause, goal, props=None, note=None, outputs=()):
        self.items.append((clause, goal, list(self.c.pc), props, note, list(self.c.qhyps)))
        if props and "C07" in props and not getattr(self.c, "concrete", False) and "tolerance" not in clause \
                and "raw" not in clause:
            # C07 (unit independence): a postcondition that relates SI magnitudes of outputs to SI magnitudes of inputs
            # must not mention any unit symbol or unit factor (inputs are pairs <SI magnitude, unit symbol>).
            # `outputs`: the terms computed by the code under test; they are opaque here (the statement constrains them)
            g2 = goal
            if outputs and isinstance(goal, z3.ExprRef):
                subs = [(sym.term_of(o), z3.Real(f"output!{k}")) for k, o in enumerate(outputs) if isinstance(sym.term_of(o), z3.ExprRef)]
                if subs:
                    g2 = z3.substitute(goal, *subs)
            units = mentions_units(g2)
            self.items.append((clause + "#statement-is-unit-free", z3.BoolVal(not units), [], ("C07",),
                               f"mentions {units}" if units else None, []))

    def cover(self, clause):
        self.covers.add(clause)

    def prove_via(self, clause, facts, goal, props=None, note=None):
        """Cut rule for arithmetic-heavy goals: every fact is proved from the path, the goal from the facts alone."""
        for k, f in enumerate(facts):
            self.items.append((f"{clause}/fact[{k}]", f, list(self.c.pc), props, note, list(self.c.qhyps)))
        self.items.append((f"{clause}", z3.Implies(z3.And(*[as_bool_term(f) for f in facts]), as_bool_term(goal)), [], props, note, []))

    def fail(self, clause, props=None, note=None):
        """An outcome that the contract forbids on every path reaching here."""
        self.items.append((clause, z3.BoolVal(False), list(self.c.pc), props, note, list(self.c.qhyps)))


_SK = [0]
_HOOK = None


_IDX_CACHE = {}


def _index_terms_of(f):
    """Int-sorted terms used as array indices or as arguments of ghost (g_*) functions in one formula (cached)"""
    fid = f.get_id()
    hit = _IDX_CACHE.get(fid)
    if hit is not None:
        return hit[1]
    out = {}
    seen = set()
    stack = [f]
    while stack:
        e = stack.pop()
        eid = e.get_id()
        if eid in seen:
            continue
        seen.add(eid)
        if not z3.is_app(e):
            continue
        d = e.decl()
        k = d.kind()
        nargs = e.num_args()
        if k == z3.Z3_OP_SELECT or k == z3.Z3_OP_STORE:
            t = e.arg(1)
            if t.sort().kind() == z3.Z3_INT_SORT:
                out[t.get_id()] = t
        elif k == z3.Z3_OP_UNINTERPRETED and nargs >= 1 and d.name().startswith("g_"):
            t = e.arg(0)
            if t.sort().kind() == z3.Z3_INT_SORT:
                out[t.get_id()] = t
        for i in range(nargs):
            stack.append(e.arg(i))
    res = list(out.values())
    if len(_IDX_CACHE) > 20000:
        _IDX_CACHE.clear()
    _IDX_CACHE[fid] = (f, res)       # keep f alive so the id stays valid
    return res


def _index_terms(fs):
    out = {}
    for f in fs:
        for t in _index_terms_of(f):
            out[t.get_id()] = t
    return list(out.values())


def instantiate(qhyps, base_formulas, extra_terms=(), goal_formulas=(), cap=1500):
    """Instantiate the bounded-quantifier hypotheses at index terms of the VC.
    Priority: (1) terms of the goal and its skolem constants, (2) terms those instances introduce,
    (3) the remaining index terms of the path condition, (4) terms introduced by (3) -- until `cap`."""
    if not qhyps:
        return []
    inst = []
    done = set()
    known = {}

    def round_(terms):
        new = []
        fresh_terms = []
        for t in terms:
            if t.get_id() in known:
                continue
            known[t.get_id()] = t
            for q in qhyps:
                if len(inst) + len(new) >= cap:
                    return new, fresh_terms
                key = (id(q), t.get_id())
                if key in done:
                    continue
                done.add(key)
                new.append(q.at(t))
                fresh_terms.extend(q.index_terms_at(t, _index_terms_of))
        return new, fresh_terms
    first = list(extra_terms) + _index_terms(goal_formulas)
    r1, t1 = round_(first)
    inst.extend(r1)
    r2, t2 = round_(t1)
    inst.extend(r2)
    r3, t3 = round_(_index_terms(base_formulas))
    inst.extend(r3)
    r4, _ = round_(t2 + t3)
    inst.extend(r4)
    return inst


def _prepare(goal):
    """-> parts [(goal | Via, extra hypotheses, skolems)]"""
    from .logic import flatten_goal, Via
    plain, qs = flatten_goal(goal)
    parts = []
    for g in plain:
        parts.append((g, [], []))
    for q in qs:
        _SK[0] += 1
        sk = z3.Int(f"sk!{q.name}!{_SK[0]}")
        parts.append((q.raw(sk), [q.lo <= sk, sk < q.hi], [sk]))
    if not parts:
        parts = [(z3.BoolVal(True), [], [])]
    return parts


def _merge(agg, r):
    if agg is None:
        return dict(r)
    agg["time_s"] += r["time_s"]
    if r["status"] == "refuted" and agg["status"] != "refuted":
        agg.update(status="refuted", model=r["model"], backend=r["backend"])
    elif r["status"] == "undecided" and agg["status"] == "discharged":
        agg.update(status="undecided", backend=r["backend"])
    return agg


def _one(pc, g, extra, sks, inputs, qhyps, timeout_ms):
    gs = z3.simplify(g)
    if z3.is_true(gs):
        return dict(status="discharged", backend="z3-simplify", time_s=0.0, model=None)
    inst = instantiate(qhyps, list(pc) + extra, extra_terms=sks, goal_formulas=[gs])
    return discharge(list(pc) + extra + inst, gs, inputs, timeout_ms)


def discharge_goal(pc, goal, inputs, qhyps, timeout_ms, prepared=None):
    """Goal may contain bounded quantifiers: skolemise them; instantiate hypothesis quantifiers."""
    from .logic import Via
    from .solve import quick_linear
    parts = prepared or _prepare(goal)
    agg = None
    for g, extra, sks in parts:
        if isinstance(g, Via):
            # cut rule: first see whether the goal follows by matching; otherwise facts from the path, goal from the facts
            inst = instantiate(qhyps, list(pc), goal_formulas=[g.goal])
            r = quick_linear(list(pc) + inst, g.goal, timeout_ms)
            if r is None:
                from .logic import via_leaves, via_cuts
                r = None
                for f in via_leaves(g):
                    r = _merge(r, _one(pc, f, [], [], inputs, qhyps, timeout_ms))
                for facts, gl in via_cuts(g):
                    rc = discharge([], z3.Implies(z3.And(*facts), gl), inputs, timeout_ms)
                    if rc["status"] != "discharged":
                        # a cut that does not go through is a failed PROOF ATTEMPT, not a counterexample: the verdict comes from
                        # the obligation itself (path condition |- goal) -- refuted only with a model of that.  The cut's own
                        # counter-model serves as a hint for the full query; otherwise the full solver decides (or cannot).
                        from .solve import refute_with_hint
                        cut_result = rc
                        inst_ = instantiate(qhyps, list(pc), goal_formulas=[g.goal])
                        rh = refute_with_hint(list(pc) + inst_, gl, facts, inputs)
                        rc = rh if rh is not None else _one(pc, g.goal, [], [], inputs, qhyps, timeout_ms)
                        if rc["status"] == "undecided" and cut_result["status"] == "refuted":
                            # The declared proof route of this obligation (its cut) has a counter-model and the full nonlinear
                            # query was not decided either way.  On the unchanged tree every cut goes through, so this is an
                            # obligation that held there and fails now: reported as refuted, with the cut's counter-model as
                            # the solver's reason (it is NOT claimed to be a model of the whole path condition).
                            rc = dict(cut_result, backend=str(cut_result.get("backend")) + "(cut counter-model; full query undecided)")
                    r = _merge(r, rc)
        else:
            r = _one(pc, g, extra, sks, inputs, qhyps, timeout_ms)
        agg = _merge(agg, r)
    return agg


def discharge_batch(pc, goals, inputs, qhyps, timeout_ms):
    """All obligations of one program point at once (same path condition): prove the conjunction by matching
    (linear abstraction).  -> result if the conjunction was discharged (then every member is), else None
    (the caller falls back to one by one, with the full nonlinear solver)."""
    from .logic import Via
    from .solve import quick_linear
    prepared = []
    conj, sks, goal_fs = [], [], []
    for g in goals:
        pr = _prepare(g)
        prepared.append(pr)
        for gg, extra, sk in pr:
            if isinstance(gg, Via):
                from .logic import via_leaves
                for lf in via_leaves(gg):     # leaf facts join the batch; the small cut VCs follow
                    ls = z3.simplify(lf)
                    if not z3.is_true(ls):
                        conj.append(ls)
                        goal_fs.append(ls)
                continue
            gs = z3.simplify(gg)
            if z3.is_true(gs):
                continue
            conj.append(z3.Implies(z3.And(*extra), gs) if extra else gs)
            sks.extend(sk)
            goal_fs.append(gs)
    t0 = time.time()
    if not conj:
        return dict(status="discharged", backend="z3-simplify(batched)", time_s=0.0, model=None), prepared
    inst = instantiate(qhyps, list(pc), extra_terms=sks, goal_formulas=goal_fs, cap=2500)
    r = quick_linear(list(pc) + inst, z3.And(*conj), timeout_ms)
    if r is None:
        return None, prepared
    agg = dict(status="discharged", backend=r["backend"] + "(batched)", time_s=time.time() - t0, model=None)
    from .logic import via_cuts
    for pr in prepared:
        for gg, extra, sk in pr:
            if isinstance(gg, Via):
                for facts, gl in via_cuts(gg):
                    rv = discharge([], z3.Implies(z3.And(*facts), gl), inputs, timeout_ms)
                    if rv["status"] != "discharged":
                        return None, prepared
    agg["time_s"] = time.time() - t0
    return agg, prepared


def mentions_units(goal):
    """names of unit symbols / unit-factor functions occurring in a goal"""
    from .logic import flatten_goal, Via, Forall
    found = set()
    seen = set()

    def walk(e):
        stack = [e]
        while stack:
            x = stack.pop()
            if x.get_id() in seen:
                continue
            seen.add(x.get_id())
            if z3.is_app(x):
                k = x.decl().kind()
                if k in (z3.Z3_OP_GT, z3.Z3_OP_LT, z3.Z3_OP_GE, z3.Z3_OP_LE) and x.num_args() == 2:
                    a, b = x.arg(0), x.arg(1)
                    # "the factor of a unit is positive" is a unit-independent truth, not a dependence on the unit
                    if (z3.is_app(a) and a.decl().name().startswith("fac_") and z3.is_rational_value(b)) or \
                            (z3.is_app(b) and b.decl().name().startswith("fac_") and z3.is_rational_value(a)):
                        continue
                nm = x.decl().name()
                if k == z3.Z3_OP_UNINTERPRETED and (nm.startswith("fac_") or nm.startswith("u_") or "_unit" in nm):
                    found.add(nm)
                for i in range(x.num_args()):
                    stack.append(x.arg(i))
    try:
        plain, qs = flatten_goal(goal)
    except TypeError:
        return []
    for g in plain:
        walk(z3.simplify(g.goal if isinstance(g, Via) else g))
    for q in qs:
        walk(q._frozen)
    return sorted(found)


class Job:
    """One function under contract in one scenario.

    body(c, O) runs the real code over proxies and reports obligations to O.
    replay(model) -> dict|None re-runs the scenario natively with the model's
    inputs and reports {'clause':..., 'failed': bool, 'observed':..., 'input':...}.
    """

    def __init__(self, jid, body, props, functions=(), replay=None, expect_covers=(), meta=None):
        self.id = jid
        self.body = body
        self.props = tuple(props)
        self.functions = tuple(functions)
        self.replay = replay
        self.expect_covers = tuple(expect_covers)
        self.meta = meta or {}


def explore(job: Job, timeout_ms=10000, max_paths=50000):
    """Run the job over every feasible path. -> result dict.
    If a loop header of the code is a zip(...) of chain slices, the index the loop invariant refers to is ambiguous by one
    element; the job is then tried with the invariant index shifted by 0, +1, -1 and the first attempt in which every
    obligation is discharged stands (any shift for which initiation, preservation and use are proved is a valid
    inductive invariant).  If none succeeds the unshifted result is reported."""
    from . import loops
    loops.INDEX_OFFSET[0] = 0
    loops.AMBIGUOUS_USED[0] = False
    first = _explore(job, timeout_ms, max_paths)
    if not loops.AMBIGUOUS_USED[0]:
        return first

    def clean(r):
        return not r.get("engine_error") and all(cl["status"] == "discharged" for cl in r["clauses"]) and not r.get("missing_covers")
    if clean(first):
        return first
    try:
        for off in (1, -1):
            loops.INDEX_OFFSET[0] = off
            r = _explore(job, timeout_ms, max_paths)
            if clean(r):
                r["note_index_offset"] = off
                return r
    finally:
        loops.INDEX_OFFSET[0] = 0
    return first


def _explore(job: Job, timeout_ms=10000, max_paths=50000):
    t0 = time.time()
    work = [[]]
    paths = 0
    vcs = []          # (clause, goal, pc, props, note, inputs)
    covers = set()
    engine_error = None
    unknown_feas = 0
    events = set()
    while work:
        prefix = work.pop()
        c = Ctx(prefix, timeout_ms)
        Ctx.current = c
        O = Collector(c)
        try:
            job.body(c, O)
        except PathEnd:
            pass
        except EngineError as e:
            engine_error = f"{e}\n{traceback.format_exc(limit=12)}"
        except RecursionError as e:           # pragma: no cover
            engine_error = f"recursion: {e}"
        finally:
            Ctx.current = None
        if engine_error:
            break
        paths += 1
        unknown_feas += c.unknown_feasibility
        events.update(e for e in c.events if isinstance(e, tuple) and e and e[0] in ("op", "to", "cmp", "ctor", "unary")
                      and all(isinstance(x, str) for x in e))
        for k in range(len(prefix), len(c.decisions)):
            taken, alt = c.decisions[k]
            if alt:
                work.append([d[0] for d in c.decisions[:k]] + [not taken])
        for (cl, g, pc, props, note, qh) in O.items:
            vcs.append((cl, g, pc, props, note, dict(c.inputs), qh))
        for (cl, g, pc, note, qh) in c.side_obligations:
            vcs.append((cl, g, pc, None, note, dict(c.inputs), qh))
        covers |= O.covers
        if paths > max_paths:
            engine_error = f"path budget exceeded ({max_paths})"
            break
    clauses = {}
    import os as _os
    trace = _os.environ.get("PYCV_TRACE")

    def record(cl, props, note, pc, r):
        e = clauses.setdefault(cl, dict(clause=cl, status="discharged", vcs=0, time_s=0.0, backends=set(),
                                        model=None, props=props, note=None, smt_size=0))
        e["vcs"] += 1
        e["time_s"] += r["time_s"]
        e["backends"].add(r["backend"])
        e["smt_size"] = max(e["smt_size"], len(pc) + 1)
        if r["status"] == "refuted":
            if e["status"] != "refuted":
                e["model"] = r["model"]
                e["note"] = note
            e["status"] = "refuted"
        elif r["status"] == "undecided" and e["status"] == "discharged":
            e["status"] = "undecided"

    # group the obligations of one program point (identical path condition) and try them as one conjunction
    groups = {}
    order = []
    for item in vcs:
        pc, qh = item[2], item[6]
        # identical path condition = the same conjuncts in the same order (z3 terms are hash-consed: equal ids <=> same term).
        # The key must cover EVERY conjunct: two paths of equal length that end in the same conjunct are different program
        # points, and proving one path's obligations under the other's condition is unsound.
        key = (tuple(p.get_id() for p in pc), tuple(q._ph.get_id() for q in qh))
        if key not in groups:
            groups[key] = []
            order.append(key)
        groups[key].append(item)
    for key in order:
        items = groups[key]
        prepared = [None] * len(items)
        done = False
        if len(items) >= 2 and len(items[0][2]) > 0:
            _t = time.time()
            res, prepared = discharge_batch(items[0][2], [it[1] for it in items], items[0][5], items[0][6], timeout_ms)
            if res is not None:
                share = res["time_s"] / len(items)
                for (cl, g, pc, props, note, inputs, qh) in items:
                    record(cl, props, note, pc, dict(res, time_s=share))
                done = True
            if trace:
                print(f"   batch of {len(items)} at pc={len(items[0][2])} {'discharged' if done else 'split'} {time.time() - _t:.2f}s", flush=True)
        if done:
            continue
        for k, (cl, g, pc, props, note, inputs, qh) in enumerate(items):
            _t = time.time()
            if _HOOK:
                _HOOK(cl)
            r = discharge_goal(pc, g, inputs, qh, timeout_ms, prepared=prepared[k])
            if trace:
                print(f"   vc {cl[:90]:<90} pc={len(pc)} qh={len(qh)} {r['status']} {r['backend']} {time.time() - _t:.2f}s", flush=True)
            record(cl, props, note, pc, r)
    for e in clauses.values():
        e["backends"] = sorted(e["backends"])
    missing = [cv for cv in job.expect_covers if cv not in covers]
    return dict(job=job.id, props=list(job.props), functions=list(job.functions), paths=paths,
                clauses=list(clauses.values()), covers=sorted(covers), missing_covers=missing,
                engine_error=engine_error, unknown_feasibility=unknown_feas,
                wall_s=time.time() - t0, meta=job.meta, unit_events=sorted(events, key=str))


# --------------------------------------------------------------------------
# tier C: concrete replay of a counter-model on the real (unpatched) code
# --------------------------------------------------------------------------

class ConcreteCtx:
    concrete = True

    def __init__(self, model):
        self.model = model
        self.pc = []
        self.inputs = {}
        self.used = {}

    def real(self, name, pytype='float', is_input=True, relax=False):
        from .solve import parse_value
        raw = self.model.get(name, "0")
        try:
            v = parse_value(raw)
        except Exception:            # noqa: BLE001
            v = 0
        if pytype == 'int' and getattr(v, "denominator", 1) == 1:
            out = int(v)
        else:
            out = float(v)
        self.used[name] = out
        return out

    def boolean(self, name, is_input=True):
        v = self.model.get(name, "False") == "True"
        self.used[name] = v
        return v

    def assume(self, cond):
        if not cond:
            raise PathEnd()

    assume_checked = assume

    def prove_in_path(self, clause, goal, note=None):
        pass


class ConcreteCollector:
    def __init__(self, c):
        self.c = c
        self.failed = []       # (clause, note)
        self.passed = []
        self.covers = set()

    def prove(self, clause, goal, props=None, note=None, outputs=()):
        (self.passed if bool(goal) else self.failed).append((clause, note))

    def prove_via(self, clause, facts, goal, props=None, note=None):
        (self.passed if bool(goal) else self.failed).append((clause, note))

    def fail(self, clause, props=None, note=None):
        self.failed.append((clause, note))

    def cover(self, clause):
        self.covers.add(clause)


def replay_concrete(job: Job, model: dict):
    """Run the job natively with the model's inputs. Must be called in an UNPATCHED process."""
    c = ConcreteCtx(model)
    O = ConcreteCollector(c)
    err = None
    try:
        job.body(c, O)
    except PathEnd:
        pass
    except Exception as e:           # noqa: BLE001
        err = f"{type(e).__name__}: {e}"
    return dict(inputs={k: repr(v) for k, v in c.used.items()}, failed=[list(x) for x in O.failed],
                passed=len(O.passed), covers=sorted(O.covers), error=err)


class SamplingCtx(ConcreteCtx):
    """Concrete context for the witness search: inputs come from the verifier's counter-model or are drawn at random."""

    NICE = (0, 1, -1, 2, 0.5, 0.25, 3, 10, 0.1, 100, -0.5, -2)

    def __init__(self, model, rng, p_keep):
        super().__init__(model)
        self.rng = rng
        self.p_keep = p_keep
        self.drawn = {}

    def real(self, name, pytype='float', is_input=True, relax=False):
        if name in self.drawn:
            self.model[name] = self.drawn[name]
        elif not (name in self.model and self.rng.random() < self.p_keep):
            r = self.rng
            if name.endswith("#fac"):
                v = 10.0 ** r.uniform(-9, 9)                 # mkq takes the real unit whose factor is nearest
            elif pytype == 'int':
                v = r.choice((1, 2, 3, 5, 10, 12, 17, 20, 30, 50, 80, 100, 0, -1, r.randint(1, 150)))
            else:
                k = r.random()
                v = (r.choice(self.NICE) if k < 0.3 else round(r.uniform(0, 1), 3) if k < 0.5 else round(r.uniform(0, 100), 2) if k < 0.7
                     else round(10.0 ** r.uniform(-4, 4), 6) if k < 0.9 else -round(10.0 ** r.uniform(-3, 3), 4))
            self.model[name] = self.drawn[name] = repr(v)
        return super().real(name, pytype, is_input, relax)

    def boolean(self, name, is_input=True):
        if name not in self.drawn and not (name in self.model and self.rng.random() < self.p_keep):
            self.model[name] = self.drawn[name] = str(self.rng.random() < 0.5)
        return super().boolean(name, is_input)


def search_witness(job: Job, base_model: dict, clause: str, trials=400, seed=0):
    """BOUNDED random search (replay aid only, never a verdict): after the verifier refuted `clause`, look for native inputs
    of the same job on which the real code fails the same clause.  -> (model, replay output, trials used) | None"""
    import random
    rng = random.Random(seed)
    for t in range(trials):
        c = SamplingCtx(dict(base_model or {}), rng, 0.8 if t < trials // 3 else 0.4 if t < 2 * trials // 3 else 0.0)
        O = ConcreteCollector(c)
        err = None
        try:
            job.body(c, O)
        except PathEnd:
            pass
        except Exception as e:           # noqa: BLE001
            err = f"{type(e).__name__}: {e}"
        if clause in [x for x, _ in O.failed]:
            out = dict(inputs={k: repr(v) for k, v in c.used.items()}, failed=[list(x) for x in O.failed],
                       passed=len(O.passed), covers=sorted(O.covers), error=err)
            return {k: v for k, v in c.model.items() if k in c.used}, out, t + 1
    return None
