"""pycv.explore -- exhaustive path enumeration by decision replay + VC collection."""
from __future__ import annotations

import time
import traceback

import z3

from . import sym
from .solve import discharge
from .sym import Ctx, EngineError, PathEnd, as_bool_term


class Collector:
    """Receives the obligations of one path."""

    def __init__(self, c: Ctx):
        self.c = c
        self.items = []      # (clause, goal_term, pc_snapshot, props, note)
        self.covers = set()

    def prove(self, clause, goal, props=None, note=None):
        self.items.append((clause, as_bool_term(goal), list(self.c.pc), props, note))

    def cover(self, clause):
        self.covers.add(clause)

    def fail(self, clause, props=None, note=None):
        """An outcome that the contract forbids on every path reaching here."""
        self.items.append((clause, z3.BoolVal(False), list(self.c.pc), props, note))


class Job:
    """One function under contract in one scenario.

    body(c, O) runs the real code over proxies and reports obligations to O.
    replay(model) -> dict|None re-runs the scenario natively with the model's
    inputs and reports {'clause':..., 'failed': bool, 'observed':..., 'input':...}.
    """

    def __init__(self, jid, body, props, functions=(), replay=None, expect_covers=(), meta=None):
        self.id = jid
        self.body = body
        self.props = tuple(props)
        self.functions = tuple(functions)
        self.replay = replay
        self.expect_covers = tuple(expect_covers)
        self.meta = meta or {}


def explore(job: Job, timeout_ms=10000, max_paths=50000):
    """Run the job over every feasible path. -> result dict."""
    t0 = time.time()
    work = [[]]
    paths = 0
    vcs = []          # (clause, goal, pc, props, note, inputs)
    covers = set()
    engine_error = None
    unknown_feas = 0
    events = set()
    while work:
        prefix = work.pop()
        c = Ctx(prefix, timeout_ms)
        Ctx.current = c
        O = Collector(c)
        try:
            job.body(c, O)
        except PathEnd:
            pass
        except EngineError as e:
            engine_error = f"{e}\n{traceback.format_exc(limit=12)}"
        except RecursionError as e:           # pragma: no cover
            engine_error = f"recursion: {e}"
        finally:
            Ctx.current = None
        if engine_error:
            break
        paths += 1
        unknown_feas += c.unknown_feasibility
        events.update(e for e in c.events if isinstance(e, tuple))
        for k in range(len(prefix), len(c.decisions)):
            taken, alt = c.decisions[k]
            if alt:
                work.append([d[0] for d in c.decisions[:k]] + [not taken])
        for (cl, g, pc, props, note) in O.items:
            vcs.append((cl, g, pc, props, note, dict(c.inputs)))
        for (cl, g, pc, note) in c.side_obligations:
            vcs.append((cl, g, pc, None, note, dict(c.inputs)))
        covers |= O.covers
        if paths > max_paths:
            engine_error = f"path budget exceeded ({max_paths})"
            break
    clauses = {}
    for (cl, g, pc, props, note, inputs) in vcs:
        r = discharge(pc, g, inputs, timeout_ms)
        e = clauses.setdefault(cl, dict(clause=cl, status="discharged", vcs=0, time_s=0.0, backends=set(),
                                        model=None, props=props, note=None, smt_size=0))
        e["vcs"] += 1
        e["time_s"] += r["time_s"]
        e["backends"].add(r["backend"])
        e["smt_size"] = max(e["smt_size"], len(pc) + 1)
        if r["status"] == "refuted":
            if e["status"] != "refuted":
                e["model"] = r["model"]
                e["note"] = note
            e["status"] = "refuted"
        elif r["status"] == "undecided" and e["status"] == "discharged":
            e["status"] = "undecided"
    for e in clauses.values():
        e["backends"] = sorted(e["backends"])
    missing = [cv for cv in job.expect_covers if cv not in covers]
    return dict(job=job.id, props=list(job.props), functions=list(job.functions), paths=paths,
                clauses=list(clauses.values()), covers=sorted(covers), missing_covers=missing,
                engine_error=engine_error, unknown_feasibility=unknown_feas,
                wall_s=time.time() - t0, meta=job.meta, unit_events=sorted(events, key=str))


# --------------------------------------------------------------------------
# tier C: concrete replay of a counter-model on the real (unpatched) code
# --------------------------------------------------------------------------

class ConcreteCtx:
    concrete = True

    def __init__(self, model):
        self.model = model
        self.pc = []
        self.inputs = {}
        self.used = {}

    def real(self, name, pytype='float', is_input=True, relax=False):
        from .solve import parse_value
        raw = self.model.get(name, "0")
        try:
            v = parse_value(raw)
        except Exception:            # noqa: BLE001
            v = 0
        if pytype == 'int' and getattr(v, "denominator", 1) == 1:
            out = int(v)
        else:
            out = float(v)
        self.used[name] = out
        return out

    def boolean(self, name, is_input=True):
        v = self.model.get(name, "False") == "True"
        self.used[name] = v
        return v

    def assume(self, cond):
        if not cond:
            raise PathEnd()

    assume_checked = assume

    def prove_in_path(self, clause, goal, note=None):
        pass


class ConcreteCollector:
    def __init__(self, c):
        self.c = c
        self.failed = []       # (clause, note)
        self.passed = []
        self.covers = set()

    def prove(self, clause, goal, props=None, note=None):
        (self.passed if bool(goal) else self.failed).append((clause, note))

    def fail(self, clause, props=None, note=None):
        self.failed.append((clause, note))

    def cover(self, clause):
        self.covers.add(clause)


def replay_concrete(job: Job, model: dict):
    """Run the job natively with the model's inputs. Must be called in an UNPATCHED process."""
    c = ConcreteCtx(model)
    O = ConcreteCollector(c)
    err = None
    try:
        job.body(c, O)
    except PathEnd:
        pass
    except Exception as e:           # noqa: BLE001
        err = f"{type(e).__name__}: {e}"
    return dict(inputs={k: repr(v) for k, v in c.used.items()}, failed=[list(x) for x in O.failed],
                passed=len(O.passed), covers=sorted(O.covers), error=err)
