"""pycv.absmodel -- the abstract powertrain (L2 model fields) and its proxies.

Model fields are SMT arrays over the element index i in [0, n), n symbolic:
  cls[i]                      element class (0 DCMotor, 1 Flywheel, 2 SpurGear, 3 HelicalGear, 4 WormGear, 5 WormWheel)
  <F>_val/_unit/_none[i]      for F in pos spd acc T Td Tl force bend contact   (SI = val * fac(unit))
  ratio[i] eff[i] J_val/J_unit[i] ext[i] tfc/bsc/csc[i]
  hlen_<v>[i], last_<v>_val/_unit/_none[i]    recorded history: length and last sample of every time variable
  scalars: n, pwm, cur_*, tlen, tlast_val, tlast_unit, self_locking, locked, Jeq_val, Jeq_unit

`ElemRef(i)` is the abstract element: attribute reads/writes follow the *interface contracts* of the
element classes (proved per concrete class in contracts/elements.py).
"""
from __future__ import annotations

import z3

from . import absunits as AU
from . import logic as L
from . import spec
from . import sym
from .absunits import SymQ, SymUnit
from .sym import EngineError, SymBool, SymNum, ctx

I, R, B = z3.IntSort(), z3.RealSort(), z3.BoolSort()

CLASSES = ["DCMotor", "Flywheel", "SpurGear", "HelicalGear", "WormGear", "WormWheel"]
CLS = {n: i for i, n in enumerate(CLASSES)}
# class hierarchy (from gearpy.mechanical_objects): name -> set of concrete class ids
HIER = {
    "MechanicalObject": set(range(6)), "RotatingObject": set(range(6)), "object": set(range(6)),
    "MotorBase": {0}, "DCMotor": {0}, "Flywheel": {1},
    "GearBase": {2, 3, 5}, "SpurGear": {2, 3}, "HelicalGear": {3}, "WormGear": {4}, "WormWheel": {5},
}
HAS_EXTERNAL_TORQUE = {2, 3, 4, 5}
HAS_RATIO = {1, 2, 3, 4, 5}
HAS_FORCE = {2, 3, 4, 5}
HAS_STRESS = {2, 3, 5}

QFIELDS = {   # attribute -> (field, kind)
    "angular_position": ("pos", "AngularPosition"), "angular_speed": ("spd", "AngularSpeed"),
    "angular_acceleration": ("acc", "AngularAcceleration"), "torque": ("T", "Torque"),
    "driving_torque": ("Td", "Torque"), "load_torque": ("Tl", "Torque"),
    "tangential_force": ("force", "Force"), "bending_stress": ("bend", "Stress"),
    "contact_stress": ("contact", "Stress"),
}
TIMEVARS = {  # time variable -> (field, advertised-by)
    "angular position": "pos", "angular speed": "spd", "angular acceleration": "acc", "torque": "T",
    "driving torque": "Td", "load torque": "Tl", "tangential force": "force", "bending stress": "bend",
    "contact stress": "contact",
}
FLAG_OF = {"force": "tfc", "bend": "bsc", "contact": "csc"}


def unit_idx(kind, unit):
    if isinstance(unit, SymUnit):
        return unit.idx
    return z3.IntVal(list(spec.SI_TABLE[spec.BASE_KIND[kind]]).index(unit))


def table_facts():
    """fac_K(k) = exact SI factor for every literal unit of every kind (75 equalities)"""
    out = []
    for base in sorted(set(spec.BASE_KIND.values())):
        for k, (u, f) in enumerate(spec.SI_TABLE[base].items()):
            out.append(AU._fac_fn(base)(z3.IntVal(k)) == sym.frac_term(f))
    return out


class PState:
    def __init__(self, tag="s"):
        self.v = {}
        self.tag = tag

    def declare(self, name, sort, suffix=""):
        self.v[name] = z3.Const(f"{name}{suffix}", sort)
        return self.v[name]

    def __getitem__(self, k):
        return self.v[k]

    def __setitem__(self, k, t):
        self.v[k] = t

    def snapshot(self):
        s = PState(self.tag)
        s.v = dict(self.v)
        return s

    def havoc(self, fields, tag):
        for f in fields:
            for name in self.expand(f):
                old = self.v[name]
                self.v[name] = z3.Const(f"{name}!{tag}", old.sort())

    def expand(self, f):
        """a frame entry names one model field; quantity fields expand to their three arrays"""
        if f in self.v:
            return [f]
        names = [n for n in (f"{f}_val", f"{f}_unit", f"{f}_none") if n in self.v]
        if not names:
            raise EngineError(f"unknown model field {f}")
        return names

    def changed_since(self, snap):
        out = []
        for k, t in self.v.items():
            if not t.eq(snap.v[k]):
                base = k
                for suf in ("_val", "_unit", "_none"):
                    if k.endswith(suf) and k[: -len(suf)] in _QNAMES:
                        base = k[: -len(suf)]
                out.append(base)
        return sorted(set(out))


_QNAMES = {f for f, _ in QFIELDS.values()} | {"cur", "J", "Jeq", "tlast"} | {f"last_{f}" for f, _ in QFIELDS.values()} | {"last_cur"}


def A(sort):
    return z3.ArraySort(I, sort)


class Env:
    """The L2 verification environment of one path: abstract state + proxies + ghost."""

    def __init__(self, c, n_min=2):
        self.c = c
        c.env = self
        st = self.state = PState()
        self.n = z3.Int("n")
        c.inputs["n"] = self.n
        c.assume(self.n >= n_min)
        for fact in table_facts():
            c.assume(fact)
        st.declare("cls", A(I))
        st.declare("role", A(I))               # mating role of a gear: 1 master, 2 slave, anything else None (unconstrained)
        for f, kind in QFIELDS.values():
            st.declare(f"{f}_val", A(R))          # SI magnitude (the raw value is derived: si / fac(unit))
            st.declare(f"{f}_unit", A(I))
            st.declare(f"{f}_none", A(B))
            st.declare(f"hlen_{f}", A(I))
            st.declare(f"last_{f}_val", A(R))
            st.declare(f"last_{f}_unit", A(I))
            st.declare(f"last_{f}_none", A(B))
        for nm in ("ratio", "eff", "J_val"):
            st.declare(nm, A(R))
        st.declare("J_unit", A(I))
        for nm in ("ext", "tfc", "bsc", "csc", "adv_force", "adv_bend", "adv_contact"):
            st.declare(nm, A(B))
        # motor scalars
        st.declare("pwm", R)
        st.declare("cur_val", R)
        st.declare("cur_unit", I)
        st.declare("cur_none", B)
        st.declare("ecc", B)
        st.declare("hlen_cur", I)
        st.declare("hlen_pwm", I)
        st.declare("pwm_key", B)              # 'pwm' key exists in the motor's time_variables
        st.declare("last_cur_val", R)
        st.declare("last_cur_unit", I)
        st.declare("last_cur_none", B)
        st.declare("last_pwm", R)
        # time axis and solver
        st.declare("tlen", I)
        st.declare("tlast_val", R)
        st.declare("tlast_unit", I)
        st.declare("self_locking", B)
        st.declare("locked", B)
        st.declare("Jeq_val", R)
        st.declare("Jeq_unit", I)
        self.motor = None                     # dict of SymQ motor constants (immutable)
        self.ext_fn = z3.Function("g_ext", I, R, R, R, R)          # load function of element i (time, pos, spd) -> SI torque
        self.ext_ok = z3.Function("g_ext_returns_torque", I, R, R, R, B)
        self.ext_unit = z3.Function("g_ext_unit", I, R, R, R, I)
        self.ghost = {}
        self.log = []                         # ghost trace of interface calls

    # ---- index terms used for eager instantiation of quantified hypotheses
    def index_terms(self):
        return [z3.IntVal(0), self.n - 1]

    # ---- well-formedness precondition of an assembled powertrain (from C10/C20 postconditions)
    def assume_wellformed(self, fields_set=()):
        c, st, n = self.c, self.state, self.n
        c.assume(z3.Select(st["cls"], 0) == CLS["DCMotor"])
        c.assume_goal(L.Forall(0, n, lambda j: z3.And(z3.Select(st["cls"], j) >= 0, z3.Select(st["cls"], j) <= 5)))
        c.assume_goal(L.Forall(1, n, lambda j: z3.Select(st["cls"], j) != CLS["DCMotor"], name="jc"))
        c.assume_goal(L.Forall(1, n, lambda j: z3.And(z3.Select(st["ratio"], j) > 0, z3.Select(st["eff"], j) >= 0,
                                                      z3.Select(st["eff"], j) <= 1), name="jr"))
        c.assume_goal(L.Forall(0, n, lambda j: z3.And(z3.Select(st["J_val"], j) > 0, self.fac("InertiaMoment", z3.Select(st["J_unit"], j)) > 0), name="jj"))
        for f in fields_set:
            self.assume_all_set(f)

    def assume_all_set(self, f, lo=0, hi=None):
        st = self.state
        base = spec.BASE_KIND[_kind_of_field(f)]
        self.c.assume_goal(L.Forall(lo, self.n if hi is None else hi, lambda j: z3.And(
            z3.Not(z3.Select(st[f"{f}_none"], j)), self.fac(base, z3.Select(st[f"{f}_unit"], j)) > 0), name=f"set_{f}"))

    @staticmethod
    def fac(kind, idx):
        return AU._fac_fn(spec.BASE_KIND[kind])(idx)

    # ---- SI views ---------------------------------------------------------------------------------------
    def si(self, f, j, state=None):
        st = state or self.state
        return z3.Select(st[f"{f}_val"], j)

    def isnone(self, f, j, state=None):
        st = state or self.state
        return z3.Select(st[f"{f}_none"], j)

    def J_si(self, j, state=None):
        st = state or self.state
        return z3.Select(st["J_val"], j)

    def Jeq_si(self, state=None):
        st = state or self.state
        return st["Jeq_val"]

    def cur_si(self, state=None):
        st = state or self.state
        return st["cur_val"]

    def tlast_si(self, state=None):
        st = state or self.state
        return st["tlast_val"]

    def unchanged(self, f, old, lo=0, hi=None, name="ju"):
        """forall j in [lo,hi): field f at j is the same object as in `old`"""
        st = self.state
        names = st.expand(f)
        if all(st[nm].eq(old[nm]) for nm in names):
            return True
        return L.Forall(lo, self.n if hi is None else hi,
                        lambda j: z3.And(*[z3.Select(st[nm], j) == z3.Select(old[nm], j) for nm in names]), name=name)

    def same_scalar(self, names, old):
        st = self.state
        return z3.And(*[st[nm] == old[nm] for nm in names]) if names else True

    # ---- proxies -----------------------------------------------------------------------------------------
    def elements(self):
        return SymTuple(self, z3.IntVal(0), self.n)

    def elem(self, idx):
        return ElemRef(self, idx)

    def quantity(self, f, j):
        """read field f of element j as an abstract quantity (precondition: not None)"""
        kind = _kind_of_field(f)
        st = self.state
        return SymQ(kind, SymNum(z3.Select(st[f"{f}_val"], j), "float"),
                    SymUnit(kind, idx=z3.Select(st[f"{f}_unit"], j)))

    def store_quantity(self, f, j, q):
        st = self.state
        st[f"{f}_val"] = z3.Store(st[f"{f}_val"], j, sym.term_of(q.si()))
        st[f"{f}_unit"] = z3.Store(st[f"{f}_unit"], j, unit_idx(q.kind, q.unit))
        st[f"{f}_none"] = z3.Store(st[f"{f}_none"], j, z3.BoolVal(False))


def _kind_of_field(f):
    if f.startswith("last_"):
        f = f[5:]
    for ff, kind in QFIELDS.values():
        if ff == f:
            return kind
    return {"cur": "Current", "J": "InertiaMoment", "Jeq": "InertiaMoment", "tlast": "Time"}[f]


# --------------------------------------------------------------------------
# sequences of symbolic length
# --------------------------------------------------------------------------

def _idx(k):
    if isinstance(k, SymNum):
        if k.iterm is not None:
            return k.iterm
        return _to_int(k.term)
    if isinstance(k, int):
        return z3.IntVal(k)
    if isinstance(k, z3.ExprRef):
        return k
    raise EngineError(f"bad index {k!r}")


def _is_int_term(t):
    return True


def _to_int(t):
    # SymNum int terms are ToReal(int-term): strip it when possible
    if z3.is_app(t) and t.decl().kind() == z3.Z3_OP_TO_REAL:
        return t.arg(0)
    s = z3.simplify(t)
    if z3.is_app(s) and s.decl().kind() == z3.Z3_OP_TO_REAL:
        return s.arg(0)
    if z3.is_rational_value(s) and s.denominator_as_long() == 1:
        return z3.IntVal(s.numerator_as_long())
    return z3.ToInt(t)


def symint(t):
    return SymNum(z3.ToReal(t), "int", iterm=t)


class _Iter:
    def __init__(self, first, exit_, step, lo, hi, value_at):
        self.first, self.exit, self.step, self.lo, self.hi, self.value_at = first, exit_, step, lo, hi, value_at

    def fresh_index(self, c):
        return z3.Int(c.fresh_name("k"))

    def in_range(self, k):
        return z3.And(self.lo <= k, k < self.hi)

    def next(self, k):
        return k + self.step


class SymRange:
    """range(a, b, +-1) with symbolic bounds"""

    def __init__(self, start, stop, step=1):
        self.start, self.stop, self.step = _idx(start), _idx(stop), step
        if step not in (1, -1):
            raise EngineError("symbolic range with |step| != 1")

    def __reversed__(self):
        # reversed(range(a, b)) == range(b - 1, a - 1, -1);  reversed(range(a, b, -1)) == range(b + 1, a + 1)
        if self.step == 1:
            return SymRange(symint(self.stop - 1), symint(self.start - 1), -1)
        return SymRange(symint(self.stop + 1), symint(self.start + 1), 1)

    def vc_iter(self):
        if self.step == 1:
            # k in [start, stop); exit value = max(start, stop)
            ex = z3.If(self.stop >= self.start, self.stop, self.start)
            return _Iter(self.start, ex, 1, self.start, self.stop, lambda k: symint(k))
        ex = z3.If(self.stop <= self.start, self.stop, self.start)
        return _Iter(self.start, ex, -1, self.stop + 1, self.start + 1, lambda k: symint(k))


def sym_range(*args):
    if not any(isinstance(a, SymNum) for a in args):
        return range(*args)
    if len(args) == 1:
        return SymRange(0, args[0])
    if len(args) == 2:
        return SymRange(args[0], args[1])
    if not isinstance(args[2], int):
        raise EngineError("symbolic step")
    return SymRange(args[0], args[1], args[2])


class SymTuple:
    """powertrain.elements (or a slice of it): ElemRef(lo) ... ElemRef(hi-1)"""

    def __init__(self, env, lo, hi):
        self.env, self.lo, self.hi = env, lo, hi

    def sym_len(self):
        return symint(self.hi - self.lo)

    def __bool__(self):
        return ctx().decide(self.hi - self.lo > 0)

    def __getitem__(self, k):
        if isinstance(k, slice):
            if k.step == -1:
                # xs[a:b:-1]: from a (default: last) down to b + 1 (default: first); assumes a, b inside the sequence
                start = self.hi - 1 if k.start is None else self._abs(k.start)
                stop = self.lo - 1 if k.stop is None else self._abs(k.stop)
                env = self.env

                def mk():
                    ex = z3.If(start >= stop, stop, start)
                    return _Iter(start, ex, -1, stop + 1, start + 1, lambda j: ElemRef(env, j))
                return SymSeqView(mk, z3.If(start >= stop, start - stop, 0))
            if k.step not in (None, 1):
                raise EngineError("stepped slice of elements")
            lo = self.lo if k.start is None else self._abs(k.start)
            hi = self.hi if k.stop is None else self._abs(k.stop)
            return SymTuple(self.env, lo, hi)
        return ElemRef(self.env, z3.simplify(self._abs(k)))

    def _abs(self, k):
        if isinstance(k, int) and k < 0:
            return self.hi + k
        return self.lo + _idx(k)

    def _concrete(self):
        lo, hi = z3.simplify(self.lo), z3.simplify(self.hi)
        if z3.is_int_value(lo) and z3.is_int_value(hi):
            return lo.as_long(), hi.as_long()
        return None

    def __iter__(self):
        cc = self._concrete()
        if cc is None:
            raise EngineError("iteration over a symbolic-length sequence outside vcloop (loop not rewritten)")
        return iter([ElemRef(self.env, z3.IntVal(k)) for k in range(cc[0], cc[1])])

    def vc_iter(self):
        ex = z3.If(self.hi >= self.lo, self.hi, self.lo)
        return _Iter(self.lo, ex, 1, self.lo, self.hi, lambda k: ElemRef(self.env, k))


class SymSeqView:
    """a derived symbolic iterable (reversed / enumerate / zip of symbolic sequences): only usable as a loop header.
    The loop index k stays the ABSOLUTE index of the frontier element (forward: the largest index of the tuple handed to
    the body, backward: the smallest), so an invariant written for `for i in range(...)` fits the restructured loop."""

    index_ambiguous = False

    def __init__(self, mk_iter, length, index_ambiguous=False):
        self._mk, self._len = mk_iter, length
        self.index_ambiguous = index_ambiguous

    def vc_iter(self):
        return self._mk()

    def sym_len(self):
        return symint(self._len)

    def __iter__(self):
        raise EngineError("iteration over a derived symbolic sequence outside a rewritten loop header")

    def __reversed__(self):
        raise EngineError("reversed() of a derived symbolic sequence")


def _seq_len(it):
    n = it.hi - it.lo
    return z3.If(n >= 0, n, 0)


def sym_reversed(x):
    if isinstance(x, SymTuple) and x._concrete() is None:
        def mk():
            ex = z3.If(x.hi >= x.lo, x.lo - 1, x.hi - 1)
            return _Iter(x.hi - 1, ex, -1, x.lo, x.hi, lambda k: ElemRef(x.env, k))
        return SymSeqView(mk, z3.If(x.hi >= x.lo, x.hi - x.lo, 0))
    import builtins
    return builtins.reversed(x)


def sym_enumerate(x, start=0):
    if hasattr(x, "vc_iter") and not (hasattr(x, "_concrete") and x._concrete() is not None):
        def mk():
            u = x.vc_iter()
            st = _idx(start)
            return _Iter(u.first, u.exit, u.step, u.lo, u.hi,
                         lambda k: (symint(z3.simplify(st + (k - u.first) * u.step)), u.value_at(k)))
        u0 = x.vc_iter()
        return SymSeqView(mk, _seq_len(u0))
    import builtins
    return builtins.enumerate(x, start)


def sym_zip(*xs, strict=False):
    symbolic = [hasattr(x, "vc_iter") and not (hasattr(x, "_concrete") and x._concrete() is not None) for x in xs]
    if not any(symbolic):
        import builtins
        return builtins.zip(*xs, strict=strict)
    if not all(symbolic) or strict:
        raise EngineError("zip of symbolic and concrete sequences")

    def mk():
        us = [x.vc_iter() for x in xs]
        step = us[0].step
        n = _seq_len(us[0])
        for u in us[1:]:
            m = _seq_len(u)
            n = z3.If(m < n, m, n)
        ref = next((j for j, x in enumerate(xs) if isinstance(x, SymRange)), None)
        if ref is not None or any(u.step != step for u in us):
            # an explicit index range among the components (or mixed directions): the loop index is that component's
            # value; component j is at first_j + step_j * (number of iterations done)
            ur = us[ref if ref is not None else 0]

            def value_at(k):
                cnt = (k - ur.first) * ur.step
                return tuple(u.value_at(z3.simplify(u.first + u.step * cnt)) for u in us)
            lo, hi = (ur.first, ur.first + n) if ur.step == 1 else (ur.first - n + 1, ur.first + 1)
            return _Iter(ur.first, z3.simplify(ur.first + n * ur.step), ur.step, z3.simplify(lo), z3.simplify(hi), value_at)
        # frontier component: forward -> the one that starts at the largest index, backward -> at the smallest
        firsts = [u.first for u in us]
        f = firsts[0]
        for g in firsts[1:]:
            f = z3.If(g > f, g, f) if step == 1 else z3.If(g < f, g, f)
        f = z3.simplify(f)
        offs = [z3.simplify(u.first - f) for u in us]
        lo, hi = (f, f + n) if step == 1 else (f - n + 1, f + 1)
        ex = f + n * step
        return _Iter(f, z3.simplify(ex), step, z3.simplify(lo), z3.simplify(hi),
                     lambda k: tuple(u.value_at(z3.simplify(k + o)) for u, o in zip(us, offs)))
    us0 = [x.vc_iter() for x in xs]
    n0 = _seq_len(us0[0])
    for u in us0[1:]:
        m = _seq_len(u)
        n0 = z3.If(m < n0, m, n0)
    return SymSeqView(mk, n0, index_ambiguous=True)


def sym_tuple(x=()):
    if isinstance(x, (SymTuple, SymSeqView)):
        return x          # elements is already an immutable sequence view
    import builtins
    return builtins.tuple(x)


def sym_list(x=()):
    if isinstance(x, (SymTuple, SymSeqView)):
        return x          # only read access is modelled; mutation of the copy raises through the proxy
    import builtins
    return builtins.list(x)


def sym_len(x):
    if hasattr(x, "sym_len"):
        return x.sym_len()
    import builtins
    return builtins.len(x)


# --------------------------------------------------------------------------
# the abstract element
# --------------------------------------------------------------------------

class _Callable:
    pass


class ExternalTorque(_Callable):
    """user load function of element i: an uninterpreted pure function of the SI values of its arguments"""

    def __init__(self, env, i):
        self.env, self.i = env, i

    def __call__(self, time=None, angular_position=None, angular_speed=None):
        env = self.env
        t, p, s = (sym.term_of(L.num(x.si())) if isinstance(x, SymQ) else None for x in (time, angular_position, angular_speed))
        if t is None or p is None or s is None:
            raise EngineError("load function called with a non-quantity")
        env.log.append(("ext", self.i, t, p, s))
        c = ctx()
        if c.decide(env.ext_ok(self.i, t, p, s)):
            u = SymUnit("Torque", idx=env.ext_unit(self.i, t, p, s))
            c.assume(u.factor() > 0)
            return SymQ("Torque", SymNum(env.ext_fn(self.i, t, p, s), "float"), u)
        return NotATorque()


class NotATorque:
    """what a faulty load function returns"""


class ElemRef:
    __hash__ = None

    def __init__(self, env, idx):
        object.__setattr__(self, "_env", env)
        object.__setattr__(self, "_i", idx)

    # -- class tests -------------------------------------------------------------------------------------
    def _cls(self):
        return z3.Select(self._env.state["cls"], self._i)

    def _in(self, ids):
        c = self._cls()
        return z3.simplify(z3.Or(*[c == k for k in sorted(ids)])) if ids else z3.BoolVal(False)

    def _require_class(self, ids, attr):
        if not ctx().decide(self._in(ids)):
            raise AttributeError(f"element has no attribute {attr!r}")

    # -- attribute protocol ------------------------------------------------------------------------------
    def __getattr__(self, name):
        env = self._env
        st = env.state
        i = self._i
        c = ctx()
        if name in QFIELDS:
            f, kind = QFIELDS[name]
            if f == "force":
                self._require_class(HAS_FORCE, name)
            if f in ("bend", "contact"):
                self._require_class(HAS_STRESS, name)
            if c.decide(z3.Select(st[f"{f}_none"], i)):
                return None
            return env.quantity(f, i)
        if name == "master_gear_ratio":
            self._require_class(HAS_RATIO, name)
            return SymNum(z3.Select(st["ratio"], i), "float")
        if name == "master_gear_efficiency":
            self._require_class(HAS_RATIO, name)
            return SymNum(z3.Select(st["eff"], i), "float")
        if name == "inertia_moment":
            return SymQ("InertiaMoment", SymNum(z3.Select(st["J_val"], i), "float"),
                        SymUnit("InertiaMoment", idx=z3.Select(st["J_unit"], i)))
        if name == "external_torque":
            self._require_class(HAS_EXTERNAL_TORQUE, name)
            if c.decide(z3.Select(st["ext"], i)):
                return ExternalTorque(env, i)
            return None
        if name == "name":
            return "<element>"
        if name == "mating_role":
            # gears only; the role is an unconstrained part of the abstract state (an idler is slave of one mating and
            # master of the next: the later declaration wins), returned as the real role classes so every test works
            self._require_class(HAS_EXTERNAL_TORQUE, name)
            from gearpy.mechanical_objects import MatingMaster, MatingSlave
            r = z3.Select(st["role"], i)
            if c.decide(r == 1):
                return MatingMaster
            if c.decide(r == 2):
                return MatingSlave
            return None
        if name == "tangential_force_is_computable":
            self._require_class(HAS_FORCE, name)
            return SymBool(z3.Select(st["tfc"], i))
        if name == "bending_stress_is_computable":
            self._require_class(HAS_STRESS, name)
            return SymBool(z3.Select(st["bsc"], i))
        if name == "contact_stress_is_computable":
            self._require_class(HAS_STRESS, name)
            return SymBool(z3.Select(st["csc"], i))
        if name == "electric_current_is_computable":
            self._require_class({0}, name)
            return SymBool(st["ecc"])
        if name == "pwm":
            self._require_class({0}, name)
            return SymNum(st["pwm"], "float")
        if name == "electric_current":
            self._require_class({0}, name)
            if c.decide(st["cur_none"]):
                return None
            return SymQ("Current", SymNum(st["cur_val"], "float"), SymUnit("Current", idx=st["cur_unit"]))
        if name in ("maximum_torque", "no_load_speed", "no_load_electric_current", "maximum_electric_current"):
            self._require_class({0}, name)
            key = {"maximum_torque": "Tm", "no_load_speed": "w0", "no_load_electric_current": "i0",
                   "maximum_electric_current": "im"}[name]
            if key in ("i0", "im") and not c.decide(st["ecc"]):
                return None
            return env.motor[key]
        if name == "time_variables":
            return TimeVariables(env, i)
        if name in ("compute_torque", "compute_electric_current", "compute_tangential_force",
                    "compute_bending_stress", "compute_contact_stress", "update_time_variables"):
            return lambda: getattr(self._env.iface, name)(self)
        raise EngineError(f"abstract element: attribute {name!r} is not part of the interface model")

    def __setattr__(self, name, value):
        env = self._env
        st = env.state
        i = self._i
        if name in QFIELDS:
            f, kind = QFIELDS[name]
            if f == "force":
                self._require_class(HAS_FORCE, name)
            if f in ("bend", "contact"):
                self._require_class(HAS_STRESS, name)
            if AU._real_quantity(value):
                value = AU.lift_real(value)          # module constants such as NULL_ANGULAR_SPEED
            # interface contract of the setters: TypeError unless an instance of the field's kind
            if not (isinstance(value, SymQ) and spec.BASE_KIND[value.kind] == spec.BASE_KIND[kind] and
                    (value.kind == kind or spec.BASE_KIND[value.kind] == kind)):
                raise TypeError(f"Parameter {name!r} must be an instance of {kind!r}.")
            env.store_quantity(f, i, value)
            env.log.append(("set", f, i))
            return
        if name == "pwm":
            self._require_class({0}, name)
            if not sym.sym_isinstance(value, (float, int)):
                raise TypeError("Parameter 'pwm' must be a float or an integer.")
            if (value > 1) or (value < -1):
                raise ValueError("Pulse Width Modulation (PWM) must be within -1 and 1.")
            st["pwm"] = sym.term_of(value)
            return
        if name == "electric_current":
            self._require_class({0}, name)
            if not (isinstance(value, SymQ) and value.kind == "Current"):
                raise TypeError("Parameter 'electric_current' must be an instance of 'Current'.")
            st["cur_val"] = sym.term_of(value.si())
            st["cur_unit"] = unit_idx("Current", value.unit)
            st["cur_none"] = z3.BoolVal(False)
            return
        raise EngineError(f"abstract element: assignment to {name!r} is not part of the interface model")

    def __repr__(self):
        return f"ElemRef({self._i})"


class TimeVariables:
    """element.time_variables: only what the control rules read is modelled (the 'load torque' series)"""

    def __init__(self, env, i):
        self.env, self.i = env, i

    def __getitem__(self, key):
        if key != "load torque":
            raise EngineError(f"time_variables[{key!r}] is not modelled")
        return RecordedSeries(self.env, self.i, "Tl")


class RecordedSeries:
    def __init__(self, env, i, f):
        self.env, self.i, self.f = env, i, f

    def __bool__(self):
        return ctx().decide(z3.Select(self.env.state[f"hlen_{self.f}"], self.i) > 0)

    def __getitem__(self, k):
        if not isinstance(k, int) or k < 0:
            raise EngineError("only series[k] with a literal k >= 0 is modelled")
        env = self.env
        if not ctx().decide(z3.Select(env.state[f"hlen_{self.f}"], self.i) > k):
            raise IndexError("list index out of range")
        g = env.ghost.setdefault(f"first_{self.f}" if k == 0 else f"sample{k}_{self.f}", {})
        key = str(self.i)
        if key not in g:
            c = ctx()
            si = z3.Real(c.fresh_name(f"first_{self.f}"))
            u = SymUnit(_kind_of_field(self.f), idx=z3.Int(c.fresh_name("u_first")))
            c.assume(u.factor() > 0)
            g[key] = SymQ(_kind_of_field(self.f), SymNum(si, "float"), u)
        return g[key]


def _elem_isinstance(obj, cls):
    if isinstance(obj, ElemRef):
        ids = set()
        for t in sym._unpack_types(cls):
            nm = getattr(t, "__name__", None)
            if nm in HIER:
                ids |= HIER[nm]
        return SymBool(obj._in(ids))
    if isinstance(obj, NotATorque):
        return False
    if isinstance(obj, _Callable):
        return any(getattr(t, "__name__", "") in ("Callable", "object") for t in sym._unpack_types(cls))
    return None


sym.ISINSTANCE_HOOKS.insert(0, _elem_isinstance)


def sym_hasattr(obj, name):
    if isinstance(obj, ElemRef):
        if name == "external_torque":
            return SymBool(obj._in(HAS_EXTERNAL_TORQUE))
        if name in ("master_gear_ratio", "master_gear_efficiency"):
            return SymBool(obj._in(HAS_RATIO))
        if name == "mating_role":
            return SymBool(obj._in(HAS_EXTERNAL_TORQUE))
        if name in QFIELDS:
            f = QFIELDS[name][0]
            return True if f not in FLAG_OF else SymBool(obj._in(HAS_FORCE if f == "force" else HAS_STRESS))
        raise EngineError(f"hasattr(element, {name!r}) not modelled")
    import builtins
    return builtins.hasattr(obj, name)


class AbsPowertrain:
    def __init__(self, env):
        self._env = env

    @property
    def elements(self):
        return self._env.elements()

    @property
    def self_locking(self):
        return SymBool(self._env.state["self_locking"])

    @property
    def time(self):
        return SymTimeList(self._env)

    def update_time(self, instant):
        return self._env.iface.update_time(instant)


class SymTimeList:
    def __init__(self, env):
        self.env = env

    def __bool__(self):
        return ctx().decide(self.env.state["tlen"] > 0)

    def sym_len(self):
        return symint(self.env.state["tlen"])

    def __getitem__(self, k):
        if k != -1:
            raise EngineError("only time[-1] is modelled")
        st = self.env.state
        ctx().prove_in_path("time[-1]-on-a-non-empty-axis", st["tlen"] > 0)
        return SymQ("Time", SymNum(st["tlast_val"], "float"), SymUnit("Time", idx=st["tlast_unit"]))

    def __setitem__(self, k, value):
        # powertrain.time is the powertrain's own list: code that OVERWRITES the last recorded instant changes the axis
        if k != -1:
            raise EngineError("only time[-1] = ... is modelled")
        st = self.env.state
        ctx().prove_in_path("time[-1]-on-a-non-empty-axis", st["tlen"] > 0)
        if not (isinstance(value, SymQ) and spec.BASE_KIND[value.kind] == "Time"):
            raise EngineError(f"time[-1] = {value!r}: not a Time")
        st["tlast_val"] = sym.term_of(value.si())
        st["tlast_unit"] = unit_idx("Time", value.unit)
        self.env.log.append(("overwrite-last-instant",))


def _pt_isinstance(obj, cls):
    if isinstance(obj, AbsPowertrain):
        return any(getattr(t, "__name__", "") in ("Powertrain", "object") for t in sym._unpack_types(cls))
    return None


sym.ISINSTANCE_HOOKS.insert(0, _pt_isinstance)
