"""pycv.run -- job scheduling (16-process pool), aggregation, verdicts, evidence, replay files."""
from __future__ import annotations

import fnmatch
import importlib
import json
import os
import re
import sys
import time
from concurrent.futures import ProcessPoolExecutor, as_completed
import multiprocessing as mp

ROOT = os.path.dirname(os.path.dirname(os.path.abspath(__file__)))
CONTRACT_MODULES = ["contracts.units"]

ASSUMPTIONS_COMMON = [
    "tier R: Python int/float arithmetic is treated as mathematical integer/real arithmetic (rounding, overflow, "
    "underflow, NaN/inf are not modelled) unless an obligation is explicitly labelled tier E/B",
    "math.pi stands for pi: one exact rational (the decimal expansion of math.pi) is used for pi in code and spec",
    "decimal float literals are read as the decimals written (0.001 = 1/1000)",
    "CPython 3.12 executes the real function objects; the symbolic proxies (pycv/sym.py) and the shadow builtins "
    "installed as module globals (isinstance, abs, float, min, max, sum, math functions) are the trusted core "
    "of the verifier",
    "z3 5.1 (python API) decides the quantifier-free VCs; cvc5 1.0.3 and z3 4.8.12 are consulted on 'unknown'",
]

_WORKER = {}


def _load_jobs(patched_tables=None, modules=None):
    jobs = {}
    for name in (modules or CONTRACT_MODULES):
        m = importlib.import_module(name)
        for j in m.all_jobs(patched_tables):
            if j.id in jobs:
                raise RuntimeError(f"duplicate job id {j.id}")
            jobs[j.id] = j
    return jobs


def _init_worker(modules):
    sys.path.insert(0, ROOT)
    if os.environ.get("PYCV_REPO"):
        sys.path.insert(0, os.environ["PYCV_REPO"])
    from pycv import patch
    tabs = patch.patch_all_gearpy()
    for name in modules:
        m = importlib.import_module(name)
        if hasattr(m, "patch_worker"):
            m.patch_worker()
    _WORKER["jobs"] = _load_jobs(tabs, modules)
    _WORKER["patches"] = list(patch.PATCH_LOG)


def _run_chunk(args):
    ids, timeout_ms = args
    from pycv import explore
    out = []
    for jid in ids:
        job = _WORKER["jobs"][jid]
        try:
            out.append(explore.explore(job, timeout_ms=timeout_ms))
        except Exception as e:      # noqa: BLE001  harness crash: never a verdict
            import traceback
            out.append(dict(job=jid, props=list(job.props), functions=list(job.functions), paths=0, clauses=[],
                            covers=[], missing_covers=[], engine_error=f"harness crash: {e}\n{traceback.format_exc(limit=8)}",
                            unknown_feasibility=0, wall_s=0.0, meta=job.meta))
    return out, _WORKER["patches"]


def run_jobs(job_ids, modules, timeout_ms=10000, procs=None, chunk=25, progress=True):
    procs = procs or min(16, os.cpu_count() or 4)
    heavy = [j for j in job_ids if not j.startswith("units.")]
    light = [j for j in job_ids if j.startswith("units.")]
    # heavy (composite) jobs first, one per task, so that they do not queue behind the many small unit-layer jobs
    heavy.sort(key=lambda j: (0 if j.startswith("solver.run") else 1 if "powertrain_variables" in j else 2, j))
    chunks = [[j] for j in heavy] + [light[i:i + chunk] for i in range(0, len(light), chunk)]
    results = []
    patches = []
    t0 = time.time()
    ctxm = mp.get_context("spawn")
    with ProcessPoolExecutor(max_workers=procs, mp_context=ctxm, initializer=_init_worker, initargs=(modules,)) as ex:
        futs = [ex.submit(_run_chunk, (ch, timeout_ms)) for ch in chunks]
        done = 0
        for f in as_completed(futs):
            res, p = f.result()
            results.extend(res)
            patches = p or patches
            done += 1
            if progress and done % max(1, len(chunks) // 10) == 0:
                print(f"  .. {done}/{len(chunks)} chunks, {time.time() - t0:.0f}s", file=sys.stderr, flush=True)
    results.sort(key=lambda r: r["job"])
    return results, patches


# --------------------------------------------------------------------------
# known findings
# --------------------------------------------------------------------------

def load_known_findings():
    p = os.path.join(ROOT, "known_findings.json")
    if not os.path.exists(p):
        return dict(findings=[], fixed=[])
    with open(p) as f:
        return json.load(f)


def match_finding(findings, prop, oid, meta):
    for kf in findings:
        if kf["property"] != prop:
            continue
        if not re.search(kf["obligation_regex"], oid):
            continue
        cond = kf.get("meta_where")
        if cond:
            try:
                if not eval(cond, {"__builtins__": {}}, dict(meta)):   # noqa: S307  our own committed file
                    continue
            except Exception:      # noqa: BLE001
                continue
        return kf
    return None


def safe_name(s):
    return re.sub(r"[^A-Za-z0-9_.+-]+", "_", s)[:150]
