"""pycv.cli -- `./check <Cxx> [--tier quick|thorough]` and `./check --replay <file>`.

Exit codes: 0 property held on everything explored (known findings printed as KNOWN-FINDING lines)
            1 VIOLATION (refuted obligation that is not a listed known finding)
            2 UNDECIDED (solver unknown / spec incomplete) -- never printed as a violation
            3 engine or harness problem (cannot interpret, vacuity guard, self-test failure)
"""
from __future__ import annotations

import argparse
import collections
import json
import zlib
import os
import sys
import time

ROOT = os.path.dirname(os.path.dirname(os.path.abspath(__file__)))
sys.path.insert(0, ROOT)
if os.environ.get("PYCV_REPO"):
    # self-test only: verify another checkout of gearpy (a scratch worktree with a seeded change) instead of /repo
    sys.path.insert(0, os.environ["PYCV_REPO"])

from pycv import run as R            # noqa: E402
from pycv import explore             # noqa: E402

MAX_VIOLATION_LINES = 25


def props_config():
    import contracts
    return contracts.PROPERTIES


def main(argv=None):
    ap = argparse.ArgumentParser()
    ap.add_argument("prop", nargs="?")
    ap.add_argument("--tier", default=os.environ.get("VERIF_TIER", "quick"), choices=["quick", "thorough"])
    ap.add_argument("--replay")
    ap.add_argument("--procs", type=int, default=None)
    ap.add_argument("--only", default=None, help="substring filter on job ids (debugging)")
    a = ap.parse_args(argv)
    if a.replay:
        return do_replay(a.replay)
    if not a.prop:
        ap.error("property id required")
    return check(a.prop, a.tier, a.procs, a.only)


def do_replay(path):
    with open(path) as f:
        rp = json.load(f)
    cfg = props_config()[rp["property"]]
    jobs = R._load_jobs(None, cfg["modules"])
    job = jobs.get(rp["job"])
    if job is None:
        print(f"job {rp['job']} not found in the current contract set")
        return 3
    if rp.get("corpus_monitor") is not None:
        fails = corpus_failures(rp["property"], (rp.get("job") or "") + " " + (rp.get("clause") or ""))
        print(json.dumps(fails[:5], indent=1, default=str))
        if fails:
            print(f"REPLAY: obligation {rp['obligation']}: the corpus monitor finds {fails[0]['relation']!r} failing in scenario {fails[0]['scenario']!r}")
            return 1
        print(f"REPLAY: obligation {rp['obligation']}: no relation of {rp['property']} fails on the corpus")
        return 0
    out = explore.replay_concrete(job, rp.get("model") or {})
    failed = [c for c, _ in out["failed"]]
    print(json.dumps(out, indent=1, default=str))
    if rp["clause"] in failed:
        print(f"REPLAY: obligation {rp['obligation']} FAILS on the real code with inputs {out['inputs']}")
        return 1
    print(f"REPLAY: obligation {rp['obligation']} does not fail on the real code with inputs {out['inputs']}")
    return 0


def check(prop, tier, procs=None, only=None):
    t0 = time.time()
    seed = int(os.environ.get("VERIF_SEED", "0") or 0)
    cfgs = props_config()
    if prop not in cfgs:
        print(f"property {prop} is not claimed (see MANIFEST.json not_applicable)")
        return 3
    cfg = cfgs[prop]
    modules = cfg["modules"]
    timeout_ms = 10000 if tier == "quick" else 60000
    try:
        jobs = R._load_jobs(None, modules)
    except Exception as e:      # noqa: BLE001
        import traceback
        traceback.print_exc()
        print(f"ENGINE-ERROR property={prop} cannot build the job list: {e}")
        return 3
    also = tuple(cfg.get("depends_on", ()))       # obligations of these properties are part of this property's argument
    ids = sorted(j.id for j in jobs.values() if (prop in j.props or any(a in j.props for a in also))
                 and (tier == "thorough" or not j.meta.get("thorough_only")))
    if only:
        ids = [i for i in ids if only in i]
    own = set(ids)
    lib_ids = []
    if cfg.get("uses_unit_contracts"):
        # dependency closure: the unit-layer jobs whose contracts (SymQ) the property's functions are verified against
        if "contracts.units" not in modules:
            modules = ["contracts.units"] + list(modules)
            jobs = R._load_jobs(None, modules)
        lib_ids = sorted(j.id for j in jobs.values() if j.id not in own and j.id.startswith("units.")
                         and j.meta.get("family") in ("op", "to", "cmp", "unary"))
    print(f"[{prop}] tier={tier} jobs={len(ids)} (+{len(lib_ids)} unit-layer dependency jobs) modules={modules}", flush=True)
    results, patches = R.run_jobs(ids + lib_ids, modules, timeout_ms=timeout_ms, procs=procs)
    used = set()
    for r in results:
        if r["job"] in own:
            used.update(tuple(e) for e in r.get("unit_events", []))

    kf = R.load_known_findings()
    findings = kf.get("findings", [])
    obligations = []       # dicts
    engine_errors = []
    vacuity = []
    functions = set()
    paths = 0
    backends = collections.Counter()
    solver_time = 0.0
    for r in results:
        paths += r["paths"]
        if r["engine_error"]:
            engine_errors.append((r["job"], r["engine_error"]))
            continue
        if r["missing_covers"]:
            vacuity.append((r["job"], r["missing_covers"]))
        is_lib = r["job"] not in own
        if is_lib and not lib_job_used(r["meta"], used):
            continue
        functions.update(r["functions"])
        for cl in r["clauses"]:
            tags = cl["props"] or r["props"]
            if is_lib:
                if not lib_clause_counts(r["meta"], cl["clause"], used):
                    continue
            elif prop not in tags and not any(a in tags for a in also) and not cl["clause"].startswith("helper:"):
                continue          # (helper clauses -- the abstract unit semantics -- always count: refuted => exit 2)
            oid = f"{r['job']}:{cl['clause']}"
            obligations.append(dict(id=oid, job=r["job"], clause=cl["clause"], status=cl["status"], vcs=cl["vcs"],
                                    time_s=round(cl["time_s"], 4), backends=cl["backends"], model=cl["model"],
                                    note=cl["note"], meta=r["meta"], paths=r["paths"], smt_size=cl["smt_size"]))
            for b in cl["backends"]:
                backends[b] += 1
            solver_time += cl["time_s"]

    # extra (non-symbolic) parts of a property: bounded stand-ins, Lean, self-tests
    extra = []
    for modname in modules:
        import importlib
        m = importlib.import_module(modname)
        if hasattr(m, "extra_checks"):
            extra.extend(m.extra_checks(prop, tier, seed) or [])
    try:
        from contracts import crosscheck as _xc           # thorough tier: native-vs-symbolic engine cross-check (bounded)
        extra.extend(_xc.extra_checks(prop, tier, seed) or [])
    except Exception as e:      # noqa: BLE001
        extra.append(dict(id="crosscheck.native-vs-symbolic", status="engine-error", counts_as_obligation=False, note=repr(e)))

    refuted = [o for o in obligations if o["status"] == "refuted"]
    undecided = [o for o in obligations if o["status"] == "undecided"]
    known_hits = collections.OrderedDict()
    violations = []
    helper_broken = [o for o in refuted if o["clause"].startswith("helper:")]
    refuted = [o for o in refuted if not o["clause"].startswith("helper:")]
    for o in helper_broken[:10]:
        print(f"HELPER-CONTRACT-BROKEN obligation={o['id']} model={o['model']} (the abstract unit contract that callers "
              f"are verified against no longer describes the code: proofs above it are not supported)")
    undecided = undecided + helper_broken
    for o in refuted:
        k = R.match_finding(findings, prop, o["id"], o["meta"])
        if k is not None:
            known_hits.setdefault(k["id"], dict(finding=k, obligations=[]))["obligations"].append(o)
        else:
            violations.append(o)
    for e in extra:
        if e.get("status") == "refuted":
            k = R.match_finding(findings, prop, e["id"], e.get("meta", {}))
            if k is not None:
                known_hits.setdefault(k["id"], dict(finding=k, obligations=[]))["obligations"].append(e)
            else:
                violations.append(dict(e, job=e.get("job"), clause=e.get("clause", e["id"])))
        elif e.get("status") == "undecided":
            undecided.append(e)
        elif e.get("status") == "engine-error":
            engine_errors.append((e["id"], e.get("note", "")))

    # replay refutations on the real code (this process never patches gearpy)
    rep_dir = os.path.join(os.environ.get("PYCV_EVIDENCE_DIR") or os.path.join(ROOT, "replays"), prop)
    os.makedirs(rep_dir, exist_ok=True)
    lines = []
    seen_groups = collections.Counter()
    for o in violations:
        grp = (o.get("meta", {}).get("family"), o.get("clause"))
        seen_groups[grp] += 1
        if seen_groups[grp] > 3 or len(lines) >= MAX_VIOLATION_LINES:
            continue
        confirmed, rp = replay_obligation(prop, o, jobs)
        path = os.path.join(rep_dir, R.safe_name(o["id"]) + ".json")
        with open(path, "w") as f:
            json.dump(rp, f, indent=1, default=str)
        o["replay"] = path
        o["replayed"] = confirmed
        lines.append(f"VIOLATION property={prop} replay={path}" + ("" if confirmed else " no-failing-input-found"))

    for kid, h in known_hits.items():
        o = h["obligations"][0]
        if "model" in o and o.get("job") in jobs:
            confirmed, rp = replay_obligation(prop, o, jobs)
            h["replayed"] = confirmed
            h["example"] = rp.get("concrete", {}).get("inputs")
        print(f"KNOWN-FINDING: property={prop} {h['finding']['id']}: {h['finding']['what']} "
              f"[{len(h['obligations'])} obligation(s) refuted, e.g. {o['id']}"
              + (f", replayed on the real code with {h.get('example')}" if h.get("replayed") else "") + "]")

    for jid, miss in vacuity[:10]:
        print(f"VACUITY job={jid} never reached {miss}")
    for jid, err in engine_errors[:10]:
        print(f"ENGINE-ERROR job={jid}: {err.splitlines()[0] if err else ''}")
        if os.environ.get("PYCV_DEBUG"):
            print(err)
    for o in undecided[:20]:
        print(f"UNDECIDED obligation={o['id']}")
    for ln in lines:
        print(ln)
    if violations:
        grp = collections.Counter()
        exm = {}
        for o in violations:
            m = o.get("meta", {})
            k = (m.get("family"), m.get("Ka") or m.get("kind"), m.get("op"), m.get("Kb"), o.get("clause"))
            grp[k] += 1
            exm.setdefault(k, (o["id"], o.get("model"), o.get("note")))
        for k, v in sorted(grp.items(), key=str):
            print(f"  refuted-group n={v} {k} e.g. {exm[k]}")
    if len(violations) > len(lines):
        print(f"({len(violations)} refuted obligations in total; {len(lines)} reported with replay files)")

    n_known = sum(len(h["obligations"]) for h in known_hits.values())
    main_obls = [o for o in obligations if not any(o is x for h in known_hits.values() for x in h["obligations"])]
    extra_main = [e for e in extra if e.get("status") in ("discharged", "passed")]
    n_obl = len(main_obls) + len([e for e in extra if e.get("counts_as_obligation")])
    n_dis = len([o for o in main_obls if o["status"] == "discharged"]) + \
        len([e for e in extra if e.get("counts_as_obligation") and e.get("status") == "discharged"])

    status = 0
    if violations:
        status = 1
    elif engine_errors or vacuity or n_obl == 0:
        status = 3
    elif undecided:
        status = 2

    # ---------------- evidence -------------------------------------------------
    fam = collections.Counter((o["meta"].get("family", "-"), o["clause"].split(":")[0]) for o in obligations)
    samples = []
    seen = set()
    for o in obligations:
        key = (o["meta"].get("family"), o["clause"])
        if key in seen:
            continue
        seen.add(key)
        samples.append(dict(obligation=o["id"], status=o["status"], vcs=o["vcs"], solver_time_s=o["time_s"],
                            backends=o["backends"], paths_of_job=o["paths"], smt_assertions=o["smt_size"],
                            model=o["model"]))
        if len(samples) >= 40:
            break
    for o in violations[:5]:
        samples.append(dict(obligation=o["id"], status="refuted", model=o.get("model"), replay=o.get("replay"),
                            replayed_on_real_code=o.get("replayed")))
    cfg_assum = list(cfg.get("assumptions", []))
    trusted = list(cfg.get("trusted_base", [])) + [
        "pycv proxies/explorer (pycv/sym.py, pycv/explore.py, pycv/patch.py)", "z3 5.1.0", "CPython 3.12.1"]
    ev = dict(
        property_id=prop, tier=tier, seed=seed, level=cfg.get("level", "proof"),
        coverage=dict(
            obligations=n_obl, discharged=n_dis,
            checker_cmd=f"./check {prop} --tier {tier}",
            trusted_base=trusted,
            explanation=cfg.get("explanation", ""),
            jobs=len(ids), paths_explored=paths, vcs=sum(o["vcs"] for o in obligations),
            functions_under_contract=sorted(functions),
            obligations_by_family=[dict(family=k[0], clause_group=k[1], n=v) for k, v in sorted(fam.items())],
            backends=dict(backends), solver_time_s=round(solver_time, 2),
            known_finding_obligations_refuted=n_known,
            known_findings_reported=[dict(id=k, what=h["finding"]["what"], obligations=len(h["obligations"]),
                                          replayed_on_real_code=h.get("replayed"), example_input=h.get("example"))
                                     for k, h in known_hits.items()],
            undecided=len(undecided), refuted_not_known=len(violations),
            vacuity_guard=dict(jobs_with_missing_covers=len(vacuity), zero_obligation_guard=n_obl > 0),
            engine_errors=len(engine_errors),
            bounded_or_extra_checks=[{k: v for k, v in e.items() if k != "meta"} for e in extra],
            patches=patches,
            samples=samples,
            exhaustive=bool(cfg.get("exhaustive", False)),
        ),
        assumptions=R.ASSUMPTIONS_COMMON + cfg_assum,
        wall_s=round(time.time() - t0, 2),
        violations=len(violations),
    )
    evdir = os.environ.get("PYCV_EVIDENCE_DIR") or os.path.join(ROOT, "evidence")     # self-test writes elsewhere
    os.makedirs(evdir, exist_ok=True)
    evp = os.path.join(evdir, f"{prop}.json")
    with open(evp, "w") as f:
        json.dump(ev, f, indent=1, default=str)
    try:
        import jsonschema
        with open("/root/.vp/EVIDENCE.schema.json") as f:
            jsonschema.validate(ev, json.load(f))
    except FileNotFoundError:
        pass
    except Exception as e:     # noqa: BLE001
        print(f"EVIDENCE-INVALID {e}")
        status = status or 3
    print(f"[{prop}] obligations={n_obl} discharged={n_dis} known-finding-obligations={n_known} "
          f"refuted={len(violations)} undecided={len(undecided)} engine-errors={len(engine_errors)} "
          f"paths={paths} wall={time.time() - t0:.1f}s exit={status}")
    return status


LIB_SI_CLAUSES = {
    "op:SI-magnitude", "op:result-kind-by-dimensional-analysis", "op:result-is-a-plain-number",
    "op:defined-by-dimensional-analysis=>no-TypeError", "to:SI-magnitude-unchanged", "to:result-unit-is-target",
    "cmp:beyond-abs-tol=>ordered-as-SI-magnitudes", "cmp:same-magnitude=>equal-whichever-side", "unary:value",
    "op:operands-unchanged", "cmp:operands-unchanged", "to:copy-leaves-self-unchanged",
}


def lib_job_used(meta, used):
    fam = meta.get("family")
    if fam == "op":
        return ("op", meta["op"], meta["Ka"], meta["Kb"]) in used
    if fam == "to":
        return ("to", meta["kind"]) in used or ("ctor", meta["kind"]) in used
    if fam == "cmp":
        return ("cmp", meta["op"], meta["Ka"], meta["Kb"]) in used
    if fam == "unary":
        return ("unary", meta["which"], meta["kind"]) in used
    return False


def lib_clause_counts(meta, clause, used):
    if clause.startswith("helper:"):
        return True
    if meta.get("family") == "to" and clause.startswith("self:ctor"):
        return ("ctor", meta["kind"]) in used
    if meta.get("family") == "to" and ("to", meta["kind"]) not in used:
        return False
    return clause in LIB_SI_CLAUSES


_CORPUS = {}


def corpus_failures(prop, job=None):
    fails = _corpus_failures(prop)
    if prop == "C12":       # the corpus has two groups of C12 relations: continuation and reset+repeat
        is_reset = "reset" in (job or "")
        fails = [f for f in fails if f.get("property") != "C12" or f["relation"].startswith("reset") == is_reset]
    return fails


def _corpus_failures(prop):
    if prop not in _CORPUS:
        try:
            from pycv import monitor
            deps = set(props_config().get(prop, {}).get("depends_on", ()))
            _CORPUS[prop] = monitor.run_corpus({prop} | deps, max_failures=40)
        except Exception as e:      # noqa: BLE001
            _CORPUS[prop] = []
    return _CORPUS[prop]


def replay_obligation(prop, o, jobs):
    """-> (confirmed, replay-file content)"""
    rp = dict(property=prop, obligation=o["id"], job=o.get("job"), clause=o.get("clause"),
              verifier=dict(status="refuted", backends=o.get("backends"), model=o.get("model"), note=o.get("note")),
              model=o.get("model") or {})
    job = jobs.get(o.get("job"))
    confirmed = False
    if o.get("replay_result") is not None:        # extra checks replay themselves
        rp["concrete"] = o["replay_result"]
        confirmed = bool(o["replay_result"].get("confirmed"))
    elif job is not None and o.get("model") is not None:
        try:
            out = explore.replay_concrete(job, o["model"])
        except BaseException as e:      # noqa: BLE001
            out = dict(error=repr(e), failed=[], inputs={})
        rp["concrete"] = out
        confirmed = o["clause"] in [c for c, _ in out.get("failed", [])]
        if not confirmed:
            # the counter-model did not replay (symbolic units without a real counterpart, abstracted trigonometry, a model
            # on the boundary): bounded random search for native inputs of the same job that fail the same clause
            try:
                w = explore.search_witness(job, o["model"], o["clause"], seed=zlib.crc32(o["id"].encode()))
            except BaseException as e:      # noqa: BLE001
                w = None
            if w is not None:
                rp["model"], rp["concrete"], n = w
                rp["witness_search"] = dict(kind="bounded random search over the inputs of the job (replay aid, not a verdict)", trials_used=n,
                                            first_attempt_with_the_verifier_model=out)
                confirmed = True
    fam = (o.get("meta") or {}).get("family", "")
    if not confirmed and fam in ("solver-method", "solver-run", "convergence", "snapshot", "export", "powertrain-reset", "powertrain-misc"):
        # L2 obligation: no direct concrete input; evaluate the per-instant relations natively on the corpus of real
        # simulations (pycv/monitor.py) -- the first failing relation of this property is the replayed counterexample
        fails = corpus_failures(prop, (o.get("job") or "") + " " + (o.get("clause") or ""))
        rp["corpus_monitor"] = dict(scenarios=10, failures=fails[:5])
        if fails:
            confirmed = True
            rp["concrete"] = dict(inputs=dict(scenario=fails[0]["scenario"]), failed=[[fails[0]["relation"], fails[0]]])
    rp["replayed_on_real_code"] = confirmed
    rp["how_to_replay"] = f"./check --replay <this file>"
    return confirmed, rp


if __name__ == "__main__":
    sys.exit(main())
