"""pycv.logic -- contract vocabulary that works in both modes.

Symbolic mode: arguments are SymNum/SymBool/z3 terms -> result is a z3 BoolRef.
Concrete mode (replay, tier C): arguments are Python numbers -> result is a bool,
with equalities taken up to a relative tolerance (the real code computes in
binary64, the contract is stated over reals).
"""
from __future__ import annotations

from fractions import Fraction

import z3

from .sym import SymBool, SymNum, is_number, term_of, to_frac

REL_TOL = 1e-9
ABS_TOL = 1e-300


def _symbolic(*xs):
    return any(isinstance(x, (SymNum, SymBool, z3.ExprRef)) for x in xs)


def _t(x):
    if isinstance(x, z3.ExprRef):
        return x
    return term_of(x)


def _b(x):
    if isinstance(x, SymBool):
        return x.term
    if isinstance(x, z3.BoolRef):
        return x
    return z3.BoolVal(bool(x))


def eq(a, b):
    if _symbolic(a, b):
        return _t(a) == _t(b)
    a = float(a)
    b = float(b)
    return abs(a - b) <= REL_TOL * max(abs(a), abs(b)) + ABS_TOL


def eq_scaled(a, b, *scale):
    """equality of two results of an expression with cancellation: exact over the reals (symbolic mode); in the native
    replay the tolerance is relative to the largest magnitude that entered the computation, not to the (small) result"""
    if _symbolic(a, b):
        return _t(a) == _t(b)
    a = float(a)
    b = float(b)
    m = max([abs(a), abs(b)] + [abs(float(x)) for x in scale])
    return abs(a - b) <= REL_TOL * m + ABS_TOL


def ne(a, b):
    r = eq(a, b)
    return z3.Not(r) if isinstance(r, z3.ExprRef) else not r


def lt(a, b):
    return (_t(a) < _t(b)) if _symbolic(a, b) else (a < b)


def le(a, b):
    return (_t(a) <= _t(b)) if _symbolic(a, b) else (a <= b)


def gt(a, b):
    return lt(b, a)


def ge(a, b):
    return le(b, a)


def And(*xs):
    if _symbolic(*xs):
        return z3.And(*[_b(x) for x in xs])
    return all(bool(x) for x in xs)


def Or(*xs):
    if _symbolic(*xs):
        return z3.Or(*[_b(x) for x in xs])
    return any(bool(x) for x in xs)


def Not(x):
    if _symbolic(x):
        return z3.Not(_b(x))
    return not x


def Implies(a, b):
    if _symbolic(a, b):
        return z3.Implies(_b(a), _b(b))
    return (not a) or bool(b)


def Iff(a, b):
    if _symbolic(a, b):
        return _b(a) == _b(b)
    return bool(a) == bool(b)


def absv(a):
    if _symbolic(a):
        t = _t(a)
        return z3.If(t >= 0, t, -t)
    return abs(a)


def maxv(a, b):
    if _symbolic(a, b):
        a, b = _t(a), _t(b)
        return z3.If(a >= b, a, b)
    return max(a, b)


def minv(a, b):
    if _symbolic(a, b):
        a, b = _t(a), _t(b)
        return z3.If(a <= b, a, b)
    return min(a, b)


def num(x):
    """number usable in arithmetic with both terms and floats"""
    if isinstance(x, (SymNum,)):
        return x.term
    if isinstance(x, SymBool):
        return x._num().term
    return x


def mul(a, b):
    """product that works for term*Fraction and float*Fraction"""
    a, b = num(a), num(b)
    if isinstance(a, z3.ExprRef) or isinstance(b, z3.ExprRef):
        return _t(a) * _t(b)
    if isinstance(a, float) or isinstance(b, float):
        return float(a) * float(b)
    return a * b


def div(a, b):
    a, b = num(a), num(b)
    if isinstance(a, z3.ExprRef) or isinstance(b, z3.ExprRef):
        return _t(a) / _t(b)
    if isinstance(a, float) or isinstance(b, float):
        return float(a) / float(b)
    return Fraction(a) / Fraction(b)


def add(a, b):
    a, b = num(a), num(b)
    if isinstance(a, z3.ExprRef) or isinstance(b, z3.ExprRef):
        return _t(a) + _t(b)
    if isinstance(a, float) or isinstance(b, float):
        return float(a) + float(b)
    return a + b


def sub(a, b):
    a, b = num(a), num(b)
    if isinstance(a, z3.ExprRef) or isinstance(b, z3.ExprRef):
        return _t(a) - _t(b)
    if isinstance(a, float) or isinstance(b, float):
        return float(a) - float(b)
    return a - b


def truth(x):
    """truth value of a comparison result of the code under test, without forking"""
    if isinstance(x, SymBool):
        return x.term
    if isinstance(x, z3.BoolRef):
        return x
    return bool(x)


# --------------------------------------------------------------------------
# bounded integer quantifier (emitted quantifier-free: goals are skolemised,
# hypotheses are instantiated at the index terms occurring in the VC)
# --------------------------------------------------------------------------

_PH = [0]


class Forall:
    """forall j in [lo, hi): body(j)   (body: z3 Int term -> z3 Bool / list of z3 Bool)"""

    def __init__(self, lo, hi, body, name="j"):
        self.lo = lo if isinstance(lo, z3.ExprRef) else z3.IntVal(int(lo))
        self.hi = hi if isinstance(hi, z3.ExprRef) else z3.IntVal(int(hi))
        self.name = name
        # the body is evaluated NOW, at the program point where the quantifier is written (the abstract state it
        # reads is mutable), on a placeholder variable; instances are obtained by substitution
        _PH[0] += 1
        self._ph = z3.Int(f"{name}!ph{_PH[0]}")
        b = body(self._ph)
        if isinstance(b, (list, tuple)):
            b = z3.And(*[_b(x) for x in b]) if b else z3.BoolVal(True)
        self._frozen = _b(b)

        self._inst = {}
        self._idx_ph = None

    def index_terms_at(self, t, collector):
        """index terms of the instance at t, from the (once computed) index terms of the frozen body"""
        if self._idx_ph is None:
            self._idx_ph = collector(self._frozen)
        out = []
        for it in self._idx_ph:
            out.append(z3.simplify(z3.substitute(it, (self._ph, t))))
        return out

    def raw(self, t):
        return z3.substitute(self._frozen, (self._ph, t))

    def at(self, t):
        k = t.get_id()
        hit = self._inst.get(k)
        if hit is None:
            hit = (t, z3.Implies(z3.And(self.lo <= t, t < self.hi), self.raw(t)))
            self._inst[k] = hit
        return hit[1]


class Via:
    """Cut rule: `facts` are proved from the path condition, `goal` from the facts alone (small nonlinear VC)."""

    def __init__(self, facts, goal):
        self.raw_facts = [f if isinstance(f, Via) else _b(f) for f in facts]      # a fact may itself be a cut
        self.facts = [f.goal if isinstance(f, Via) else f for f in self.raw_facts]
        self.goal = _b(goal)


def via_leaves(v):
    """leaf facts of a (nested) cut: proved from the path condition"""
    out = []
    for f in v.raw_facts:
        if isinstance(f, Via):
            out.extend(via_leaves(f))
        else:
            out.append(f)
    return out


def via_cuts(v):
    """the small VCs `facts => goal` of a (nested) cut, innermost first"""
    out = []
    for f in v.raw_facts:
        if isinstance(f, Via):
            out.extend(via_cuts(f))
    out.append((v.facts, v.goal))
    return out


def flatten_goal(goal):
    """-> (plain z3 Bools, Foralls)"""
    plain, qs = [], []

    def rec(g):
        if g is None:
            return
        if isinstance(g, Via):
            plain.append(g)
        elif isinstance(g, Forall):
            qs.append(g)
        elif isinstance(g, (list, tuple)):
            for x in g:
                rec(x)
        else:
            plain.append(_b(g))
    rec(goal)
    return plain, qs
