"""pycv.spec -- L0: independent specification data, written from the property
statements and the SI, NOT from the code.

pi is `sym.PI` on both sides (assumption: math.pi stands for pi).
Composite kinds are *derived* (torque = force x length, inertia = mass x
length^2, surface = length^2) so that a wrong entry in the code cannot be
mirrored by a copy of the same entry here.
"""
from __future__ import annotations

from fractions import Fraction as F

from .sym import PI

ANGLE = {"rad": F(1), "deg": PI / 180, "arcmin": PI / 10800, "arcsec": PI / 648000, "rot": 2 * PI}
_T = {"s": F(1), "min": F(60), "h": F(3600)}
SPEED = {}
for a, av in (("rad", F(1)), ("deg", PI / 180)):
    for t, tv in _T.items():
        SPEED[f"{a}/{t}"] = av / tv
SPEED.update({"rps": 2 * PI, "rpm": 2 * PI / 60, "rph": 2 * PI / 3600})
ACCEL = {"rad/s^2": F(1), "deg/s^2": PI / 180, "rot/s^2": 2 * PI}
TIME = {"sec": F(1), "min": F(60), "hour": F(3600), "ms": F(1, 1000)}
LENGTH = {"m": F(1), "dm": F(1, 10), "cm": F(1, 100), "mm": F(1, 1000)}
SURFACE = {f"{u}^2": v * v for u, v in LENGTH.items()}
G0 = F("9.80665")                                   # standard gravity, exact by definition
FORCE = {"N": F(1), "mN": F(1, 1000), "kN": F(1000), "kgf": G0, "gf": G0 / 1000}
TORQUE = {f"{fu}{lu}": fv * lv for fu, fv in FORCE.items() for lu, lv in LENGTH.items()}
MASS = {"kg": F(1), "g": F(1, 1000)}
INERTIA = {f"{mu}{lu}^2": mv * lv * lv for mu, mv in MASS.items() for lu, lv in LENGTH.items()}
STRESS = {"Pa": F(1), "kPa": F(10) ** 3, "MPa": F(10) ** 6, "GPa": F(10) ** 9}
CURRENT = {"A": F(1), "mA": F(1, 1000), "uA": F(1, 10 ** 6)}

SI_TABLE = {
    "AngularPosition": ANGLE, "Angle": ANGLE, "AngularSpeed": SPEED, "AngularAcceleration": ACCEL,
    "InertiaMoment": INERTIA, "Torque": TORQUE, "Time": TIME, "TimeInterval": TIME, "Length": LENGTH,
    "Surface": SURFACE, "Force": FORCE, "Stress": STRESS, "Current": CURRENT,
}

KINDS = list(SI_TABLE)
BASE_KIND = {k: k for k in KINDS}
BASE_KIND["Angle"] = "AngularPosition"
BASE_KIND["TimeInterval"] = "Time"

# sign constraints (C19): 'pos' value > 0, 'nonneg' value >= 0
SIGN = {"Length": "pos", "Surface": "pos", "InertiaMoment": "pos", "TimeInterval": "pos", "Angle": "nonneg"}


def si_factor(kind, unit):
    """SI value of one `unit` of `kind`; None if the spec does not know the unit (spec incomplete)."""
    return SI_TABLE[kind].get(unit)


def sign_ok_term(kind, v):
    """z3/py condition: value v satisfies kind's sign constraint."""
    s = SIGN.get(kind)
    if s == "pos":
        return v > 0
    if s == "nonneg":
        return v >= 0
    return True


# ---- dimension table (C06) -------------------------------------------------
# ('mul'|'div', base kind A, base kind B) -> result base kind (None = plain number)
CROSS = {
    ("mul", "AngularSpeed", "Time"): "AngularPosition",
    ("mul", "Time", "AngularSpeed"): "AngularPosition",
    ("mul", "AngularAcceleration", "Time"): "AngularSpeed",
    ("mul", "Time", "AngularAcceleration"): "AngularSpeed",
    ("div", "Torque", "InertiaMoment"): "AngularAcceleration",
    ("div", "Torque", "Length"): "Force",
    ("div", "Force", "Surface"): "Stress",
    ("mul", "Length", "Length"): "Surface",
}
NUM = "number"


def dimension(op, ka, kb):
    """Result kind of `a op b` by dimensional analysis, or 'TypeError'.

    ka, kb in KINDS + [NUM].  Result: a kind name (sub-kind when both operands
    are the sub-kind, else the base kind), NUM, or 'TypeError'.
    """
    if ka == NUM and kb == NUM:
        return None                                  # not ours
    if op in ("add", "sub"):
        if ka == NUM or kb == NUM:
            return "TypeError"
        if BASE_KIND[ka] != BASE_KIND[kb]:
            return "TypeError"
        return ka if ka == kb else BASE_KIND[ka]
    if op == "mul":
        if ka == NUM:
            return kb
        if kb == NUM:
            return ka
        r = CROSS.get(("mul", BASE_KIND[ka], BASE_KIND[kb]))
        return r if r else "TypeError"
    if op == "div":
        if ka == NUM:
            return "TypeError"
        if kb == NUM:
            return ka
        if BASE_KIND[ka] == BASE_KIND[kb]:
            return NUM
        r = CROSS.get(("div", BASE_KIND[ka], BASE_KIND[kb]))
        return r if r else "TypeError"
    raise ValueError(op)


# ---- L0 gear data (independent copy of the two tables shipped with the library, taken at the pinned commit: the standard
# Lewis form factors for 20 deg full-depth teeth and the worm pressure-angle table).  The checks compare the CSV files
# and the look-up functions built from them against these literals.
LEWIS_TABLE = ((10, "0.201"), (11, "0.226"), (12, "0.245"), (13, "0.264"), (14, "0.276"), (15, "0.289"), (16, "0.295"), (17, "0.302"),
               (18, "0.308"), (19, "0.314"), (20, "0.320"), (21, "0.325"), (22, "0.330"), (24, "0.337"), (26, "0.344"), (28, "0.352"),
               (30, "0.358"), (32, "0.364"), (34, "0.370"), (36, "0.377"), (38, "0.383"), (40, "0.389"), (43, "0.394"), (45, "0.399"),
               (50, "0.408"), (55, "0.415"), (60, "0.421"), (65, "0.425"), (70, "0.429"), (75, "0.433"), (80, "0.436"), (90, "0.442"),
               (100, "0.446"), (150, "0.458"), (200, "0.463"), (300, "0.471"), (400, "0.478"), (500, "0.484"))
WORM_TABLE = (("14.5", "16", "0.1"), ("20", "25", "0.125"), ("25", "35", "0.15"), ("30", "45", "0.175"))   # pressure angle, max helix, Lewis


def lewis_reference(x):
    """documented look-up: linear interpolation between the tabulated teeth numbers, clamped to the first / last tabulated
    factor outside the table (exact rational arithmetic)"""
    from fractions import Fraction
    x = Fraction(x)
    pts = [(Fraction(n), Fraction(y)) for n, y in LEWIS_TABLE]
    if x <= pts[0][0]:
        return pts[0][1]
    if x >= pts[-1][0]:
        return pts[-1][1]
    for (x0, y0), (x1, y1) in zip(pts, pts[1:]):
        if x0 <= x <= x1:
            return y0 + (y1 - y0) * (x - x0) / (x1 - x0)
