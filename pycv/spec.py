"""pycv.spec -- L0: independent specification data, written from the property
statements and the SI, NOT from the code.

pi is `sym.PI` on both sides (assumption: math.pi stands for pi).
Composite kinds are *derived* (torque = force x length, inertia = mass x
length^2, surface = length^2) so that a wrong entry in the code cannot be
mirrored by a copy of the same entry here.
"""
from __future__ import annotations

from fractions import Fraction as F

from .sym import PI

ANGLE = {"rad": F(1), "deg": PI / 180, "arcmin": PI / 10800, "arcsec": PI / 648000, "rot": 2 * PI}
_T = {"s": F(1), "min": F(60), "h": F(3600)}
SPEED = {}
for a, av in (("rad", F(1)), ("deg", PI / 180)):
    for t, tv in _T.items():
        SPEED[f"{a}/{t}"] = av / tv
SPEED.update({"rps": 2 * PI, "rpm": 2 * PI / 60, "rph": 2 * PI / 3600})
ACCEL = {"rad/s^2": F(1), "deg/s^2": PI / 180, "rot/s^2": 2 * PI}
TIME = {"sec": F(1), "min": F(60), "hour": F(3600), "ms": F(1, 1000)}
LENGTH = {"m": F(1), "dm": F(1, 10), "cm": F(1, 100), "mm": F(1, 1000)}
SURFACE = {f"{u}^2": v * v for u, v in LENGTH.items()}
G0 = F("9.80665")                                   # standard gravity, exact by definition
FORCE = {"N": F(1), "mN": F(1, 1000), "kN": F(1000), "kgf": G0, "gf": G0 / 1000}
TORQUE = {f"{fu}{lu}": fv * lv for fu, fv in FORCE.items() for lu, lv in LENGTH.items()}
MASS = {"kg": F(1), "g": F(1, 1000)}
INERTIA = {f"{mu}{lu}^2": mv * lv * lv for mu, mv in MASS.items() for lu, lv in LENGTH.items()}
STRESS = {"Pa": F(1), "kPa": F(10) ** 3, "MPa": F(10) ** 6, "GPa": F(10) ** 9}
CURRENT = {"A": F(1), "mA": F(1, 1000), "uA": F(1, 10 ** 6)}

SI_TABLE = {
    "AngularPosition": ANGLE, "Angle": ANGLE, "AngularSpeed": SPEED, "AngularAcceleration": ACCEL,
    "InertiaMoment": INERTIA, "Torque": TORQUE, "Time": TIME, "TimeInterval": TIME, "Length": LENGTH,
    "Surface": SURFACE, "Force": FORCE, "Stress": STRESS, "Current": CURRENT,
}

KINDS = list(SI_TABLE)
BASE_KIND = {k: k for k in KINDS}
BASE_KIND["Angle"] = "AngularPosition"
BASE_KIND["TimeInterval"] = "Time"

# sign constraints (C19): 'pos' value > 0, 'nonneg' value >= 0
SIGN = {"Length": "pos", "Surface": "pos", "InertiaMoment": "pos", "TimeInterval": "pos", "Angle": "nonneg"}


def si_factor(kind, unit):
    """SI value of one `unit` of `kind`; None if the spec does not know the unit (spec incomplete)."""
    return SI_TABLE[kind].get(unit)


def sign_ok_term(kind, v):
    """z3/py condition: value v satisfies kind's sign constraint."""
    s = SIGN.get(kind)
    if s == "pos":
        return v > 0
    if s == "nonneg":
        return v >= 0
    return True


# ---- dimension table (C06) -------------------------------------------------
# ('mul'|'div', base kind A, base kind B) -> result base kind (None = plain number)
CROSS = {
    ("mul", "AngularSpeed", "Time"): "AngularPosition",
    ("mul", "Time", "AngularSpeed"): "AngularPosition",
    ("mul", "AngularAcceleration", "Time"): "AngularSpeed",
    ("mul", "Time", "AngularAcceleration"): "AngularSpeed",
    ("div", "Torque", "InertiaMoment"): "AngularAcceleration",
    ("div", "Torque", "Length"): "Force",
    ("div", "Force", "Surface"): "Stress",
    ("mul", "Length", "Length"): "Surface",
}
NUM = "number"


def dimension(op, ka, kb):
    """Result kind of `a op b` by dimensional analysis, or 'TypeError'.

    ka, kb in KINDS + [NUM].  Result: a kind name (sub-kind when both operands
    are the sub-kind, else the base kind), NUM, or 'TypeError'.
    """
    if ka == NUM and kb == NUM:
        return None                                  # not ours
    if op in ("add", "sub"):
        if ka == NUM or kb == NUM:
            return "TypeError"
        if BASE_KIND[ka] != BASE_KIND[kb]:
            return "TypeError"
        return ka if ka == kb else BASE_KIND[ka]
    if op == "mul":
        if ka == NUM:
            return kb
        if kb == NUM:
            return ka
        r = CROSS.get(("mul", BASE_KIND[ka], BASE_KIND[kb]))
        return r if r else "TypeError"
    if op == "div":
        if ka == NUM:
            return "TypeError"
        if kb == NUM:
            return ka
        if BASE_KIND[ka] == BASE_KIND[kb]:
            return NUM
        r = CROSS.get(("div", BASE_KIND[ka], BASE_KIND[kb]))
        return r if r else "TypeError"
    raise ValueError(op)
