"""pycv.harness -- helpers shared by the component-level contracts (L1 above the unit layer, L2)."""
from __future__ import annotations

import sys

import z3

from . import absunits as AU
from . import logic as L
from . import spec
from . import sym
from .absunits import KindFactory, SymQ, SymUnit
from .sym import EngineError

UNIT_CLASS_NAMES = set(spec.KINDS) | {"UnitBase"}


def stub_unit_classes(module_names):
    """Replace the unit classes imported into the given gearpy modules by contract stubs (SymQ factories).

    Callers of the unit layer are thereby verified against the unit layer's *contract* (pycv.absunits,
    proved at L1 against the real classes), not its body.  Returns a log line per module.
    """
    import gearpy.units as GU
    log = []
    for mn in module_names:
        m = sys.modules[mn] if mn in sys.modules else __import__(mn, fromlist=["x"])
        n = 0
        for k in list(m.__dict__):
            v = m.__dict__[k]
            if isinstance(v, type) and v.__module__ == "gearpy.units.units" and k in spec.BASE_KIND:
                m.__dict__[k] = _factory(k)
                n += 1
        if n:
            log.append(f"{mn}: {n} unit class name(s) replaced by contract stubs (SymQ factories)")
    return log


_FACT = {}


def _factory(kind):
    if kind not in _FACT:
        _FACT[kind] = KindFactory(kind)
    return _FACT[kind]


def mkq(c, kind, name, valid=True, unit=None):
    """A quantity input: symbolic SI magnitude `<name>` and symbolic unit `u_<name>` (tier R) /
    the real class in the SI unit with the model's magnitude (tier C replay).

    valid=True assumes the kind's sign constraint (class invariant of inputs, as a precondition).
    """
    if c.concrete:
        import math
        import gearpy.units as GU
        v = c.real(name)
        if unit is None:
            # the real unit whose SI factor is closest to the factor the counter-model gave the symbolic unit
            fm = c.real(f"u_{name}#fac")
            cls = getattr(GU, kind)
            tab = None
            for C in cls.__mro__:
                tab = C.__dict__.get(f"_{C.__name__}__UNITS") or tab
                if tab:
                    break
            if fm and fm > 0:
                unit = min(tab, key=lambda u: abs(math.log(float(tab[u]) / fm)))
            else:
                unit = AU.SI_UNIT[kind]
        try:
            return getattr(GU, kind)(v / float(spec.SI_TABLE[kind][unit]), unit)
        except ValueError:
            # the real class rejects this magnitude (sign-constrained kind): not an input a caller can hold
            raise sym.PathEnd() from None
    v = c.real(name)
    u = SymUnit(kind, f"u_{name}") if unit is None else unit
    if valid and kind in spec.SIGN:
        c.assume(z3.Not(L._b(AU.sign_violated(kind, v))))
    return SymQ(kind, v, u)


def _declared_isinstance(obj, cls):
    """harness stand-ins declare which library classes they stand for (so that REAL constructors and setters accept them)"""
    names = getattr(type(obj), "_pycv_instance_of", None)
    if names is None:
        return None
    return any(getattr(t, "__name__", "") in names or t is object for t in sym._unpack_types(cls))


sym.ISINSTANCE_HOOKS.insert(0, _declared_isinstance)


def lit(c, kind, value, unit):
    """a LITERAL quantity (harness data that does not matter to the obligation): a SymQ with constant SI magnitude in the
    symbolic run (constructor validations on it are decided without touching the solver), the real class in native replays"""
    if c.concrete:
        import gearpy.units as GU
        return getattr(GU, kind)(value, unit)
    from fractions import Fraction
    return SymQ(kind, sym.SymNum(sym.frac_term(Fraction(str(value)) * AU.fac(kind, unit)), "float"), unit)


def SI(q):
    """SI magnitude of a SymQ or of a real quantity"""
    if q is None:
        return None
    if isinstance(q, SymQ):
        return q.si()
    K = type(q).__name__
    return L.mul(q.value, spec.si_factor(K, q.unit))


def kind(q):
    if isinstance(q, SymQ):
        return q.kind
    return type(q).__name__


EXPECTED_ERRORS = (TypeError, ValueError, KeyError, ZeroDivisionError, AttributeError, NameError, IndexError)


# An exception CPython itself raises because a proxy object lacks a protocol (``'SymRange' object is not reversible``,
# ``unsupported operand type(s) for +: 'SymNum' and 'str'``) names the proxy class in quotes.  That is a limit of the
# verifier, not behaviour of the code: it must end as an engine problem (exit 3), never as a refuted obligation.
_PROXY_NAMES = ("AbsMotorControl", "AbsPowertrain", "AbsRule", "AbsStop", "ElemRef", "ExternalTorque", "Interp", "RecFrame",
                "RecordedSeries", "ShadowFloat", "ShadowInt", "_ShadowIntMeta", "SymSeqView", "SymSet", "CompResult", "SymArange", "SymBool", "SymNum", "SymQ", "SymRange", "SymTimeList", "SymTuple",
                "SymUnit", "TimeVariables", "_Callable", "_Iter", "_KindClass", "_Loc", "_OS", "_PD", "_Take", "_Union",
                "_ShadowFloatMeta", "PTStandIn", "Mate", "BoolRef", "ArithRef", "ExprRef")


def proxy_caused(e):
    msg = str(e)
    if not any(f"'{n}'" in msg for n in _PROXY_NAMES):
        return False
    import re
    m = re.search(r"unsupported operand type\(s\) for [^:]+: '(\w+)' and '(\w+)'", msg)
    if m and "NoneType" in m.groups():
        return False          # None combined with a number/quantity fails in the real code just the same
    return True


def call(fn, *a, **k):
    """-> ('ok', result) | ('raise', exception)"""
    try:
        return "ok", fn(*a, **k)
    except EXPECTED_ERRORS as e:
        if isinstance(e, AttributeError) and getattr(getattr(e, "obj", None), "__dict__", {}).get("_pycv_bypassed_ctor"):
            raise EngineError(f"the harness built this {type(e.obj).__name__} without its constructor and the code reads an attribute the "
                              f"harness did not provide: {e}") from e
        if proxy_caused(e):
            raise EngineError(f"a verifier proxy does not support an operation the code uses: {type(e).__name__}: {e}") from e
        return "raise", e
