"""pycv.loops -- loop cutting by inductive invariants.

The AST of a function that contains `for` loops (or list comprehensions) over
symbolic-length data is rewritten ONLY at the loop header:

    for T in ITER:            ->   for T in vcloop_("<qualname>#k", ITER):
    [E for x in S if C]       ->   vccomp_("<qualname>@k", lambda x: E, S, lambda x: C)

Everything else (the body, name mangling, closures, globals) is the function's
own text, recompiled inside a class body of the same name so `self.__x` keeps
its mangling.  With ordinary (concrete) iterables `vcloop_` simply iterates, so
the rewritten function behaves as the original.

vcloop_ on a symbolic iterable applies the Hoare rule:
  prove inv(entry) ; havoc frame ; fork { arbitrary iteration: assume inv(k),
  run the real body once, prove inv(next k), end path | exit: assume inv(exit) }.
A `break` leaves the `for` with the post-body state, an exception propagates.
"""
from __future__ import annotations

import ast
import inspect
import textwrap
import types

from . import sym
from .sym import EngineError, PathEnd, ctx

LOOP_SPECS = {}      # loop id -> LoopSpec
INDEX_OFFSET = [0]        # see vcloop: offset between the frontier index of a zip(...) header and the invariant's index
AMBIGUOUS_USED = [False]
REWRITTEN = {}       # qualname -> dict(loops=[...], fingerprints=[...])


class LoopSpec:
    """invariant(env, k) -> goal (z3 Bool / logic.Forall / list); frame = names of model fields the body may write;
    header = expected ast.dump of the iteration expression (fingerprint)."""

    def __init__(self, loop_id, invariant, frame, header=None, extra_havoc=None):
        self.loop_id = loop_id
        self.invariant = invariant
        self.frame = tuple(frame)
        self.header = header
        self.extra_havoc = extra_havoc


def loop_spec(loop_id, frame, header=None, extra_havoc=None):
    def deco(fn):
        LOOP_SPECS[loop_id] = LoopSpec(loop_id, fn, frame, header, extra_havoc)
        return fn
    return deco


class _Rewriter(ast.NodeTransformer):
    def __init__(self, qualname):
        self.q = qualname
        self.k = 0
        self.c = 0
        self.headers = []

    def visit_For(self, node):
        lid = f"{self.q}#{self.k}"
        self.k += 1
        self.headers.append((lid, ast.unparse(node.iter)))
        self.generic_visit(node)
        node.iter = ast.Call(func=ast.Name(id="vcloop_", ctx=ast.Load()),
                             args=[ast.Constant(lid), node.iter], keywords=[])
        return node

    def visit_SetComp(self, node):
        # {elt for ...}  ->  vcset_([elt for ...]): a set of symbolic numbers cannot be hashed; membership is decided by
        # (forking) symbolic equality instead
        self.generic_visit(node)
        lc = ast.ListComp(elt=node.elt, generators=node.generators)
        return ast.Call(func=ast.Name(id="vcset_", ctx=ast.Load()), args=[lc], keywords=[])

    def visit_Call(self, node):
        self.generic_visit(node)
        if isinstance(node.func, ast.Name) and node.func.id in ("set", "frozenset") and len(node.args) <= 1 and not node.keywords:
            return ast.Call(func=ast.Name(id="vcset_", ctx=ast.Load()), args=node.args, keywords=[])
        return node

    def visit_GeneratorExp(self, node):
        # a generator over chain elements used as a loop header / argument: same pointwise abstraction as a list
        # comprehension (element expressions of the code under contract are pure attribute reads)
        return self.visit_ListComp(node)

    def visit_ListComp(self, node):
        self.generic_visit(node)
        if len(node.generators) != 1 or node.generators[0].is_async:
            return node
        g = node.generators[0]
        if not isinstance(g.target, ast.Name):
            return node
        cid = f"{self.q}@{self.c}"
        self.c += 1
        arg = ast.arguments(posonlyargs=[], args=[ast.arg(arg=g.target.id)], kwonlyargs=[], kw_defaults=[], defaults=[])
        cond = g.ifs[0] if len(g.ifs) == 1 else (ast.BoolOp(op=ast.And(), values=g.ifs) if g.ifs else ast.Constant(True))
        return ast.Call(func=ast.Name(id="vccomp_", ctx=ast.Load()),
                        args=[ast.Constant(cid), ast.Lambda(args=arg, body=node.elt), g.iter,
                              ast.Lambda(args=arg, body=cond)], keywords=[])


def rewrite_method(cls, name):
    """Recompile cls.<name> with loop headers rewritten; install it on the class (verification process only)."""
    qual = f"{cls.__module__}.{cls.__name__}.{name}"
    if qual in REWRITTEN:
        return REWRITTEN[qual]
    fn = cls.__dict__[name]
    src = textwrap.dedent(inspect.getsource(fn))
    tree = ast.parse(src)
    fdef = tree.body[0]
    rw = _Rewriter(qual)
    fdef = rw.visit(fdef)
    klass = ast.ClassDef(name=cls.__name__, bases=[], keywords=[], body=[fdef], decorator_list=[], type_params=[])
    mod = ast.Module(body=[klass], type_ignores=[])
    ast.fix_missing_locations(mod)
    g = fn.__globals__
    g["vcloop_"] = vcloop
    g["vccomp_"] = vccomp
    g["vcset_"] = vcset
    ns = {}
    code = compile(mod, filename=f"<pycv-rewrite {qual}>", mode="exec")
    exec(code, g, ns)
    new = ns[cls.__name__].__dict__[name]
    new.__defaults__ = fn.__defaults__
    new.__kwdefaults__ = fn.__kwdefaults__
    setattr(cls, name, new)
    REWRITTEN[qual] = dict(headers=rw.headers)
    return REWRITTEN[qual]


class SymSet:
    """set of values some of which are symbolic: membership by symbolic equality (every comparison forks the path)"""
    __hash__ = None

    def __init__(self, items=()):
        self._items = []
        for x in items:
            self.add(x)

    def add(self, x):
        for y in self._items:
            if x == y:
                return
        self._items.append(x)

    def __contains__(self, x):
        for y in self._items:
            if x == y:
                return True
        return False

    def __len__(self):
        return len(self._items)

    def __iter__(self):
        return iter(list(self._items))

    def __bool__(self):
        return bool(self._items)

    def pop(self):
        if not self._items:
            raise KeyError("pop from an empty set")
        return self._items.pop()

    def discard(self, x):
        for k, y in enumerate(self._items):
            if x == y:
                del self._items[k]
                return

    def remove(self, x):
        n = len(self._items)
        self.discard(x)
        if len(self._items) == n:
            raise KeyError(x)


def vcset(items=()):
    from .sym import SymBool, SymNum
    items = list(items)
    if any(isinstance(x, (SymNum, SymBool)) or type(x).__name__ == "SymQ" for x in items):
        return SymSet(items)
    return set(items)


def _is_symbolic_iterable(it):
    if hasattr(it, "_concrete") and it._concrete() is not None:
        return False
    return hasattr(it, "vc_iter")


def vcloop(loop_id, iterable):
    if not _is_symbolic_iterable(iterable):
        yield from iterable
        return
    c = ctx()
    spec = LOOP_SPECS.get(loop_id)
    if spec is None:
        raise EngineError(f"loop {loop_id} iterates over symbolic-length data but has no invariant")
    env = c.env
    it = iterable.vc_iter()           # object with .first, .in_range(k), .value_at(k), .next(k), .exit
    # A loop over zip(...) of chain slices hands the body a tuple of elements; which of them carries "the" loop index
    # the invariant was written for is a guess (INDEX_OFFSET in {0, +1, -1}; explore() tries them in turn -- any
    # offset for which init, preservation and use are all proved is a valid inductive invariant).
    off = 0
    if getattr(iterable, "index_ambiguous", False):
        AMBIGUOUS_USED[0] = True
        off = INDEX_OFFSET[0]
    if off:
        real_it = it

        class _Shift:
            first, exit, step, lo, hi = real_it.first + off, real_it.exit + off, real_it.step, real_it.lo + off, real_it.hi + off
            fresh_index = real_it.fresh_index

            @staticmethod
            def in_range(k):
                return real_it.in_range(k - off)

            @staticmethod
            def next(k):
                return real_it.next(k - off) + off

            @staticmethod
            def value_at(k):
                return real_it.value_at(k - off)
        it = _Shift
    env.ghost["loop_iter"] = it       # direction and bounds, for invariants of order-independent (pointwise) loops
    # (1) invariant on entry
    _prove_inv(c, f"{loop_id}:inv-init", spec.invariant(env, it.first, entry=True))
    # (2) havoc the declared frame; anything else written by the body is a frame violation
    base = env.state.snapshot()
    env.state.havoc(spec.frame, tag=c.fresh_name("h"))
    if spec.extra_havoc:
        spec.extra_havoc(env, c)
    hav = env.state.snapshot()
    enter = c.boolean(c.fresh_name(f"enter[{loop_id}]"), is_input=False)
    if c.decide(enter.term):
        k = it.fresh_index(c)
        c.assume(it.in_range(k))
        c.add_index_terms([k, k + 1, k - 1])
        env.ghost["loop_index"] = (loop_id, k, it)        # for obligations stated at a `break` exit
        _assume_inv(c, spec.invariant(env, k, entry=False))
        env.ghost["loop_exit"] = None
        try:
            yield it.value_at(k)
        except GeneratorExit:
            env.ghost["loop_exit"] = ("break", loop_id)
            raise
        # body finished normally
        written = env.state.changed_since(hav)
        outside = [f for f in written if f not in spec.frame]
        if outside:
            c.prove_in_path(f"{loop_id}:frame", False, note=f"body writes {outside} outside the declared frame {spec.frame}")
        _prove_inv(c, f"{loop_id}:inv-preserved", spec.invariant(env, it.next(k), entry=False))
        raise PathEnd()
    else:
        env.ghost["loop_exit"] = ("exhausted", loop_id)
        _assume_inv(c, spec.invariant(env, it.exit, entry=False))
        return


def _prove_inv(c, oid, inv):
    """an invariant given as a dict {name: goal} yields one named obligation per conjunct"""
    if isinstance(inv, dict):
        for name, g in inv.items():
            c.prove_in_path(f"{oid}[{name}]", g)
    else:
        c.prove_in_path(oid, inv)


def _assume_inv(c, inv):
    if isinstance(inv, dict):
        for g in inv.values():
            c.assume_goal(g)
    else:
        c.assume_goal(inv)


class CompResult:
    """Result of a comprehension over a symbolic-length sequence: pointwise-defined, same length/filter."""

    def __init__(self, cid, elem_fn, seq, cond_fn):
        self.cid = cid
        self.elem_fn = elem_fn
        self.seq = seq
        self.cond_fn = cond_fn

    def vc_iter(self):
        """used as a loop header: iterate the underlying sequence, mapping each element (unfiltered comprehensions only)"""
        u = self.seq.vc_iter()
        elem_fn, cond_fn = self.elem_fn, self.cond_fn

        def value_at(k):
            x = u.value_at(k)
            if cond_fn(x) is not True:
                raise EngineError("loop over a FILTERED comprehension of symbolic length")
            return elem_fn(x)
        from .absmodel import _Iter
        return _Iter(u.first, u.exit, u.step, u.lo, u.hi, value_at)


def vccomp(cid, elem_fn, seq, cond_fn):
    if not _is_symbolic_iterable(seq):
        return [elem_fn(x) for x in seq if cond_fn(x)]
    return CompResult(cid, elem_fn, seq, cond_fn)
