"""pycv.monitor -- run-time contract monitor on a corpus of small REAL powertrains (tier C).

Used to replay L2 refutations: an L2 counter-model is an abstract powertrain state and has no direct concrete
input; instead the per-instant relations that the L2 contracts establish (Pinst / RunInv, stated from the property
texts) are evaluated natively on the recorded histories of a fixed corpus of real simulations (every element class,
self-locking and not, controlled and not, continued runs in other units, stop conditions).  The first failing
relation, with the scenario and the instant, is the replayed counterexample.  Bounded (the corpus), never a proof.
"""
from __future__ import annotations

import math

REL = 1e-9


def close(a, b, scale=1.0):
    return abs(a - b) <= REL * max(abs(a), abs(b), scale * 1e-6, 1e-300)


class Recorder:
    """wraps a load function and records (time, position, speed) -> torque, all in SI"""

    def __init__(self, fn):
        self.fn = fn
        self.calls = []

    def __call__(self, time, angular_position, angular_speed):
        r = self.fn(time, angular_position, angular_speed)
        self.calls.append((time.to("sec").value, angular_position.to("rad").value, angular_speed.to("rad/s").value,
                           r.to("Nm").value if hasattr(r, "to") else None))
        return r


def scenarios():
    """-> list of (name, builder); builder() -> dict(pt, solver, motor, last, load, schedule=[(dt, T, kwargs)], ...)"""
    from gearpy.mechanical_objects import DCMotor, Flywheel, HelicalGear, SpurGear, WormGear, WormWheel
    from gearpy.motor_control import PWMControl
    from gearpy.motor_control.rules import ConstantPWM
    from gearpy.powertrain import Powertrain
    from gearpy.sensors import Amperometer, Tachometer, Timer, AbsoluteRotaryEncoder
    from gearpy.solver import Solver
    from gearpy.units import (Angle, AngularPosition, AngularSpeed, Current, InertiaMoment, Length, Stress, Time,
                              TimeInterval, Torque)
    from gearpy.utils import StopCondition, add_fixed_joint, add_gear_mating, add_worm_gear_mating

    def motor(currents=True):
        if currents:
            return DCMotor("motor", InertiaMoment(5, "gcm^2"), AngularSpeed(2000, "rpm"), Torque(10, "mNm"),
                           Current(200, "mA"), Current(2, "A"))
        return DCMotor("motor", InertiaMoment(5, "gcm^2"), AngularSpeed(2000, "rpm"), Torque(10, "mNm"))

    def spur_train():
        m = motor()
        f = Flywheel("flywheel", InertiaMoment(20, "gcm^2"))
        g1 = SpurGear("g1", 12, InertiaMoment(10, "gcm^2"), Length(1, "mm"), Length(5, "mm"), Stress(200, "GPa"))
        g2 = SpurGear("g2", 36, InertiaMoment(0.00008, "kgm^2"), Length(1, "mm"), Length(5, "mm"), Stress(200, "GPa"))
        add_fixed_joint(m, f)
        add_fixed_joint(f, g1)
        add_gear_mating(g1, g2, 0.9)
        load = Recorder(lambda time, angular_position, angular_speed: Torque(5 + 0.02 * angular_speed.to("rad/s").value
                                                                                + 0.3 * time.to("sec").value, "mNm"))
        g2.external_torque = load
        g2.angular_position = AngularPosition(10, "deg")
        g2.angular_speed = AngularSpeed(30, "rpm")
        pt = Powertrain(m)
        return dict(pt=pt, solver=Solver(pt), motor=m, last=g2, load=load,
                    # continuation: dt in seconds but T in milliseconds, and a dt (3 ms) that does not divide the previous final time (40 ms)
                    schedule=[(TimeInterval(2, "ms"), TimeInterval(40, "ms"), {}), (TimeInterval(0.003, "sec"), TimeInterval(45, "ms"), {})])

    def idler_train():
        # an idler gear: slave of the first mating and master of the second (its mating role is the one declared last)
        m = motor()
        p = SpurGear("pinion", 12, InertiaMoment(10, "gcm^2"), Length(1, "mm"), Length(5, "mm"), Stress(200, "GPa"))
        idl = SpurGear("idler", 30, InertiaMoment(40, "gcm^2"), Length(1, "mm"), Length(5, "mm"), Stress(200, "GPa"))
        out = SpurGear("output", 45, InertiaMoment(90, "gcm^2"), Length(1, "mm"), Length(5, "mm"), Stress(200, "GPa"))
        add_fixed_joint(m, p)
        add_gear_mating(p, idl, 0.9)
        add_gear_mating(idl, out, 0.8)
        load = Recorder(lambda time, angular_position, angular_speed: Torque(3 + 0.01 * angular_speed.to("rad/s").value
                                                                                + 0.5 * math.cos(angular_position.to("rad").value), "mNm"))
        out.external_torque = load
        out.angular_position = AngularPosition(0, "rad")
        out.angular_speed = AngularSpeed(5, "rad/s")
        pt = Powertrain(m)
        return dict(pt=pt, solver=Solver(pt), motor=m, last=out, load=load,
                    schedule=[(TimeInterval(5, "ms"), TimeInterval(200, "ms"), {})])

    def wheel_drives_worm():
        # the inverse worm orientation: the worm WHEEL is the master of the mating (ratio n_starts / n_teeth, not self-locking)
        m = motor()
        wh = WormWheel("wheel", 20, InertiaMoment(50, "gcm^2"), Angle(10, "deg"), Angle(20, "deg"))
        w = WormGear("worm", 1, InertiaMoment(10, "gcm^2"), Angle(10, "deg"), Angle(20, "deg"))
        g = SpurGear("gear", 30, InertiaMoment(30, "gcm^2"))
        add_fixed_joint(m, wh)
        add_worm_gear_mating(wh, w, 0.05)
        add_fixed_joint(w, g)
        load = Recorder(lambda time, angular_position, angular_speed: Torque(0.05 + 0.0001 * angular_speed.to("rad/s").value, "mNm"))
        g.external_torque = load
        g.angular_position = AngularPosition(0, "rad")
        g.angular_speed = AngularSpeed(2, "rad/s")
        pt = Powertrain(m)
        return dict(pt=pt, solver=Solver(pt), motor=m, last=g, load=load,
                    schedule=[(TimeInterval(1, "ms"), TimeInterval(50, "ms"), {}), (TimeInterval(0.002, "sec"), TimeInterval(0.04, "sec"), {})])

    def helical_train():
        m = motor(False)
        h1 = HelicalGear("h1", 15, InertiaMoment(10, "gcm^2"), Angle(20, "deg"), Length(1, "mm"), Length(5, "mm"), Stress(200, "GPa"))
        h2 = HelicalGear("h2", 45, InertiaMoment(60, "gcm^2"), Angle(20, "deg"), Length(1, "mm"), Length(5, "mm"), Stress(200, "GPa"))
        g3 = SpurGear("g3", 20, InertiaMoment(10, "gcm^2"))
        g4 = SpurGear("g4", 50, InertiaMoment(100, "gcm^2"))
        add_fixed_joint(m, h1)
        add_gear_mating(h1, h2, 0.95)
        add_fixed_joint(h2, g3)
        add_gear_mating(g3, g4, 0.85)
        load = Recorder(lambda time, angular_position, angular_speed: Torque(20 * math.sin(3 * angular_position.to("rad").value) + 4, "mNm"))
        g4.external_torque = load
        g4.angular_position = AngularPosition(0, "rad")
        g4.angular_speed = AngularSpeed(0, "rad/s")
        pt = Powertrain(m)
        return dict(pt=pt, solver=Solver(pt), motor=m, last=g4, load=load,
                    schedule=[(TimeInterval(0.25, "sec"), TimeInterval(2, "sec"), {}), (TimeInterval(250, "ms"), TimeInterval(1000, "ms"), {})])

    def worm_train(load_fn, control=None, init_speed=0.0, stop=None, friction=0.4):
        m = motor()
        w = WormGear("worm", 1, InertiaMoment(10, "gcm^2"), Angle(10, "deg"), Angle(20, "deg"), Length(10, "mm"))
        wh = WormWheel("wheel", 20, InertiaMoment(50, "gcm^2"), Angle(10, "deg"), Angle(20, "deg"), Length(1, "mm"), Length(8, "mm"))
        p = SpurGear("pinion", 12, InertiaMoment(10, "gcm^2"))
        g = SpurGear("gear", 36, InertiaMoment(100, "gcm^2"))
        add_fixed_joint(m, w)
        add_worm_gear_mating(w, wh, friction)
        add_fixed_joint(wh, p)
        add_gear_mating(p, g, 0.9)
        load = Recorder(load_fn)
        g.external_torque = load
        g.angular_position = AngularPosition(0, "rad")
        g.angular_speed = AngularSpeed(init_speed, "rad/s")
        pt = Powertrain(m)
        kw = {}
        if control:
            pc = PWMControl(pt)
            for (t0, dur, val) in control:
                pc.add_rule(ConstantPWM(Timer(Time(t0, "sec"), TimeInterval(dur, "sec")), pt, val))
            kw["motor_control"] = pc
        sched = [(TimeInterval(0.001, "sec"), TimeInterval(0.6, "sec"), dict(kw)), (TimeInterval(2, "ms"), TimeInterval(100, "ms"), dict(kw))]
        return dict(pt=pt, solver=Solver(pt), motor=m, last=g, load=load, schedule=sched)

    def amp_stop():
        d = spur_train()
        d["schedule"] = [(TimeInterval(1, "ms"), TimeInterval(300, "ms"),
                          dict(stop_condition=StopCondition(Amperometer(d["motor"]), Current(1500, "mA"), StopCondition.less_than_or_equal_to)))]
        d["stop"] = ("electric current", "le", 1.5, "A")
        return d

    def tach_stop():
        d = helical_train()
        d["schedule"] = [(TimeInterval(0.05, "sec"), TimeInterval(4, "sec"),
                          dict(stop_condition=StopCondition(Tachometer(d["last"]), AngularSpeed(300, "rpm"), StopCondition.greater_than)))]
        d["stop_last"] = ("angular speed", "gt", 300 * 2 * math.pi / 60, "rad/s")
        return d

    T = Torque
    return [
        ("spur-train(rpm start, mixed inertia units, continuation in sec after ms)", spur_train),
        ("helical+spur-train(no current data, position-dependent load, continuation in ms after sec)", helical_train),
        ("spur train with an idler gear (slave of one mating, master of the next)", idler_train),
        ("worm wheel drives the worm (inverse orientation), continuation in sec after ms", wheel_drives_worm),
        ("self-locking worm, load jump locks mid-run", lambda: worm_train(
            lambda time, angular_position, angular_speed: T(10 + 2 * angular_speed.to("rad/s").value if time.to("sec").value < 0.2
                                                            else 5000 + 30 * angular_speed.to("rad/s").value, "mNm"))),
        ("self-locking worm, duty cycle +1 / -1 / 0 / +1", lambda: worm_train(
            lambda time, angular_position, angular_speed: T(1 + 0.01 * angular_speed.to("rad/s").value, "mNm"),
            control=[(0, 0.2, 1), (0.2001, 0.15, -1), (0.3502, 0.1, 0), (0.4503, 1, 1)])),
        ("self-locking worm, overrunning load, duty cycle 0 then 0.5", lambda: worm_train(
            lambda time, angular_position, angular_speed: T(-40, "mNm"), control=[(0, 0.3, 0), (0.3001, 1, 0.5)])),
        ("non-self-locking worm (low friction), reverse initial speed", lambda: worm_train(
            lambda time, angular_position, angular_speed: T(2, "mNm"), init_speed=-3.0, friction=0.05)),
        ("amperometer stop condition (threshold in mA)", amp_stop),
        ("tachometer stop condition on the last element", tach_stop),
    ]


def si(q, unit):
    return q.to(unit).value


def check(d, name):
    """run the scenario's schedule and evaluate the per-instant relations; -> list of failures (dicts)"""
    from gearpy.mechanical_objects import DCMotor, WormGear
    from gearpy.units import (AngularAcceleration, AngularPosition, AngularSpeed, Current, Force, Stress, Torque)
    fails = []

    def fail(prop, rel, **kw):
        fails.append(dict(property=prop, relation=rel, scenario=name, **kw))
    pt, solver, m, last = d["pt"], d["solver"], d["motor"], d["last"]
    els = pt.elements
    n = len(els)
    bounds = []
    t_prev_end = 0.0
    for (dt, T, kw) in d["schedule"]:
        before = len(pt.time)
        try:
            solver.run(time_discretization=dt, simulation_time=T, **kw)
        except Exception as e:          # noqa: BLE001
            fail("C11", "run raised", error=repr(e))
            return fails
        bounds.append((before, len(pt.time), si(dt, "sec"), si(T, "sec"), "stop_condition" in kw))
    t = [si(x, "sec") for x in pt.time]
    N = len(t)
    hist = {}
    for e in els:
        hist[e.name] = e.time_variables
    # C17
    kinds = {"angular position": AngularPosition, "angular speed": AngularSpeed, "angular acceleration": AngularAcceleration,
             "torque": Torque, "driving torque": Torque, "load torque": Torque, "electric current": Current,
             "tangential force": Force, "bending stress": Stress, "contact stress": Stress}
    attr = {"angular position": "angular_position", "angular speed": "angular_speed", "angular acceleration": "angular_acceleration",
            "torque": "torque", "driving torque": "driving_torque", "load torque": "load_torque", "electric current": "electric_current",
            "tangential force": "tangential_force", "bending stress": "bending_stress", "contact stress": "contact_stress", "pwm": "pwm"}
    for e in els:
        for v, ser in e.time_variables.items():
            if len(ser) != N:
                fail("C17", "one sample per instant", element=e.name, variable=v, samples=len(ser), instants=N)
                continue
            if v != "pwm" and not all(type(x) is kinds[v] for x in ser):
                fail("C17", "sample kind", element=e.name, variable=v)
            if ser and ser[-1] is not getattr(e, attr[v]) and ser[-1] != getattr(e, attr[v]):
                fail("C17", "last sample is the current attribute", element=e.name, variable=v)
    if any(f["property"] == "C17" for f in fails):
        return fails
    P = {e.name: [si(x, "rad") for x in e.time_variables["angular position"]] for e in els}
    W = {e.name: [si(x, "rad/s") for x in e.time_variables["angular speed"]] for e in els}
    A = {e.name: [si(x, "rad/s^2") for x in e.time_variables["angular acceleration"]] for e in els}
    TQ = {e.name: [si(x, "Nm") for x in e.time_variables["torque"]] for e in els}
    TD = {e.name: [si(x, "Nm") for x in e.time_variables["driving torque"]] for e in els}
    TL = {e.name: [si(x, "Nm") for x in e.time_variables["load torque"]] for e in els}
    pwm = list(m.time_variables["pwm"])
    # C11 / C12: grid
    for (b0, b1, dts, Ts, stopped) in bounds:
        start = t[b0 - 1] if b0 > 0 else 0.0
        want = round(Ts / dts)
        got = b1 - b0 - (1 if b0 == 0 else 0)
        if b0 == 0 and not close(t[0], 0.0):
            fail("C11", "time starts at 0", first=t[0])
        if (not stopped and got != want) or (stopped and got > want):
            fail("C11", "exactly round(T/dt) instants (prefix with a stop condition)", expected=want, got=got, dt=dts, T=Ts, start=start)
        first_new = b0 if b0 > 0 else 1
        for k in range(first_new, b1):
            if not close(t[k] - t[k - 1], dts, scale=dts) and k - 1 >= 0:
                fail("C11", "instants dt apart", k=k, t=t[k], previous=t[k - 1], dt=dts)
                break
        if not stopped and b1 > b0 and not close(t[b1 - 1], start + Ts, scale=Ts):
            fail("C11", "last instant = previous final time + T", last=t[b1 - 1], expected=start + Ts)
    # per instant
    w0, Tm = si(m.no_load_speed, "rad/s"), si(m.maximum_torque, "Nm")
    has_c = m.electric_current_is_computable
    if has_c:
        i0, im = si(m.no_load_electric_current, "A"), si(m.maximum_electric_current, "A")
        I = [si(x, "A") for x in m.time_variables["electric current"]]
    ratio = [None] + [els[j].master_gear_ratio for j in range(1, n)]
    eff = [None] + [els[j].master_gear_efficiency for j in range(1, n)]
    J = [si(e.inertia_moment, "kgm^2") for e in els]
    Jred = J[0]
    for j in range(1, n):
        Jred = Jred * ratio[j] + J[j]
    calls = d["load"].calls
    self_locking = pt.self_locking
    for k in range(N):
        for j in range(n - 1):
            a, b = els[j].name, els[j + 1].name
            for nm, H_ in (("position", P), ("speed", W), ("acceleration", A)):
                if not close(H_[a][k], ratio[j + 1] * H_[b][k], scale=1.0):
                    fail("C01", f"{nm} coupling", k=k, t=t[k], upstream=a, value=H_[a][k], expected=ratio[j + 1] * H_[b][k])
        # motor law
        D, w = pwm[k], W[m.name][k]
        if has_c:
            dz = i0 / im
            if abs(D) <= dz:
                Texp = 0.0
            elif D > dz:
                Texp = Tm * (D * im - i0) / (im - i0) * (1 - w / (D * w0))
            else:
                Texp = Tm * (D * im + i0) / (im - i0) * (1 - w / (D * w0))
        else:
            Texp = Tm * (1 - w / w0)
        if not close(TD[m.name][k], Texp, scale=Tm):
            fail("C02", "motor driving torque = characteristic at recorded speed and duty cycle", k=k, t=t[k], got=TD[m.name][k], expected=Texp)
        if has_c:
            if abs(D) <= dz:
                Iexp = D * im
            elif D > dz:
                Iexp = (D * im - i0) * TD[m.name][k] / (Tm * (D * im - i0) / (im - i0)) + i0
            else:
                Iexp = (D * im + i0) * TD[m.name][k] / (Tm * (D * im + i0) / (im - i0)) - i0
            if not close(I[k], Iexp, scale=im):
                fail("C08", "motor current law", k=k, t=t[k], got=I[k], expected=Iexp)
        for j in range(1, n):
            a, b = els[j - 1].name, els[j].name
            if not close(TD[b][k], TD[a][k] * eff[j] * ratio[j], scale=Tm):
                fail("C02", "driving torque propagation", k=k, element=b, got=TD[b][k], expected=TD[a][k] * eff[j] * ratio[j])
            if not close(TL[a][k], TL[b][k] / eff[j] / ratio[j], scale=Tm):
                fail("C02", "load torque propagation", k=k, element=a, got=TL[a][k], expected=TL[b][k] / eff[j] / ratio[j])
        for e in els:
            if not close(TQ[e.name][k], TD[e.name][k] - TL[e.name][k], scale=Tm):
                fail("C02", "net = driving - load", k=k, element=e.name)
        if k < len(calls):
            ct, cp, cw, cv = calls[k]
            if not (close(ct, t[k], scale=1.0) and close(cp, P[last.name][k]) and close(cw, W[last.name][k])):
                fail("C02", "load function evaluated at the recorded time, position and speed of that instant", k=k,
                     called_with=(ct, cp, cw), recorded=(t[k], P[last.name][k], W[last.name][k]))
            if cv is not None and not close(TL[last.name][k], cv, scale=Tm):
                fail("C02", "load torque of the loaded element = load function value", k=k, got=TL[last.name][k], expected=cv)
        held = self_locking and all(W[e.name][k] == 0 for e in els) and all(A[e.name][k] == 0 for e in els)
        if not held and not close(A[last.name][k], TQ[last.name][k] / Jred, scale=abs(TQ[last.name][k] / Jred) + 1):
            fail("C03", "acceleration = net torque / documented equivalent inertia (not held)", k=k, got=A[last.name][k], expected=TQ[last.name][k] / Jred)
        if not -1 <= pwm[k] <= 1:
            fail("C14", "recorded duty cycle in [-1, 1]", k=k, pwm=pwm[k])
        if self_locking and k >= 1:
            Din = pwm[k - 1]
            wm = W[m.name][k]
            if (Din == 0 and wm != 0) or (Din > 0 and wm < -1e-9) or (Din < 0 and wm > 1e-9):
                fail("C13", "self-locking: motor never driven against the duty cycle in force", k=k, t=t[k], duty_cycle_in_force=Din, motor_speed=wm)
        if not self_locking and k >= 1 and all(W[e.name][k] == 0 for e in els) and any(W[e.name][k - 1] != 0 for e in els) and abs(W[last.name][k - 1] + A[last.name][k - 1] * (t[k] - t[k - 1])) > 1e-9:
            fail("C13", "no self-locking mating: never clamped", k=k)
    # C03 step relation
    for k in range(1, N):
        dtk = t[k] - t[k - 1]
        v = W[last.name][k - 1] + A[last.name][k - 1] * dtk
        clamped = self_locking and W[last.name][k] == 0
        if not clamped and not close(W[last.name][k], v, scale=abs(v) + 1):
            fail("C03", "speed advances by previous acceleration * dt", k=k, got=W[last.name][k], expected=v)
        if not close(P[last.name][k], P[last.name][k - 1] + v * dtk, scale=abs(P[last.name][k]) + 1):
            fail("C03", "position advances by the advanced speed * dt", k=k, got=P[last.name][k], expected=P[last.name][k - 1] + v * dtk)
    # C16
    for key, owner in (("stop", m), ("stop_last", last)):
        if key in d:
            var, op, thr, unit = d[key]
            ser = [si(x, unit) for x in owner.time_variables[var]]
            ok = {"le": lambda x: x <= thr, "gt": lambda x: x > thr}[op]
            b0, b1, dts, Ts, stopped = bounds[-1]
            ended_early = (b1 - b0 - (1 if b0 == 0 else 0)) < round(Ts / dts)
            earlier = [k for k in range(max(b0, 1), b1 - 1) if ok(ser[k])]
            if earlier:
                fail("C16", "condition false at every earlier computed instant", instants=earlier[:3], values=[ser[k] for k in earlier[:3]], threshold=thr)
            if ended_early and not ok(ser[b1 - 1]):
                fail("C16", "condition true at the last recorded instant of a run that ended early", value=ser[b1 - 1], threshold=thr)
    return fails


def _histories(d):
    pt = d["pt"]
    out = {("time", ""): [si(x, "sec") for x in pt.time]}
    for e in pt.elements:
        for v, ser in e.time_variables.items():
            out[(e.name, v)] = [x if isinstance(x, (int, float)) else x.to(SI_OF[type(x).__name__]).value for x in ser]
    return out


SI_OF = {"AngularPosition": "rad", "AngularSpeed": "rad/s", "AngularAcceleration": "rad/s^2", "Torque": "Nm", "Current": "A",
         "Force": "N", "Stress": "Pa", "Time": "sec"}


def _diff(a, b, exact, what):
    if a.keys() != b.keys():
        return dict(relation=f"{what}: same recorded series", only_left=sorted(map(str, a.keys() - b.keys())), only_right=sorted(map(str, b.keys() - a.keys())))
    for k in a:
        if len(a[k]) != len(b[k]):
            return dict(relation=f"{what}: same number of samples", series=k, left=len(a[k]), right=len(b[k]))
        for i, (x, y) in enumerate(zip(a[k], b[k])):
            if (x != y) if exact else (abs(x - y) > 1e-6 * max(abs(x), abs(y), 1e-3)):
                return dict(relation=f"{what}: same histories", series=k, sample=i, left=x, right=y)
    return None


def check_c12(name, build):
    """C12 on one scenario: run + continuation (same unit, other unit) against a single run; reset + repeat (same / new solver)"""
    from gearpy.solver import Solver
    from gearpy.units import TimeInterval
    fails = []
    d0 = build()
    dt, T, kw = d0["schedule"][0]
    if "stop_condition" in kw:
        return fails
    n = round(T.to("sec").value / dt.to("sec").value)
    n1 = n // 2
    init = (d0["last"].angular_position, d0["last"].angular_speed)
    d0["solver"].run(time_discretization=dt, simulation_time=dt * n, **kw)
    single = _histories(d0)
    other = "ms" if dt.unit == "sec" else "sec"
    same = lambda q: q                      # noqa: E731
    oth = lambda q: q.to(other)             # noqa: E731
    for label, conv, convT in (("continuation in the same unit", same, same), (f"continuation in {other}", oth, oth),
                               (f"continuation with dt in {dt.unit} and T in {other}", same, oth)):
        d = build()
        kwd = d["schedule"][0][2]            # this build's own controller (bound to its own powertrain)
        d["solver"].run(time_discretization=dt, simulation_time=dt * n1, **kwd)
        d["solver"].run(time_discretization=conv(dt), simulation_time=convT(dt * (n - n1)), **kwd)
        f = _diff(single, _histories(d), False, f"run T1 then {label} vs one run of T1+T2")
        if f:
            fails.append(dict(property="C12", scenario=name, **f))
    for label, mk in (("same solver", lambda: d0["solver"]), ("new solver", lambda: Solver(d0["pt"]))):
        d0["pt"].reset()
        d0["last"].angular_position, d0["last"].angular_speed = init
        mk().run(time_discretization=dt, simulation_time=dt * n, **kw)
        f = _diff(single, _histories(d0), True, f"reset, re-apply initial conditions, repeat ({label})")
        if f:
            fails.append(dict(property="C12", scenario=name, **f))
    return fails


def check_c18(d, name):
    """C18 on a scenario that has been run: snapshots (recorded instants and between) and the exported CSV files against
    the recorded histories, in non-default units"""
    import csv
    import os
    import shutil
    import tempfile
    from gearpy.units import Time
    fails = []
    pt = d["pt"]
    t = [si(x, "sec") for x in pt.time]
    N = len(t)
    UNIT = {"angular position": "deg", "angular speed": "rpm", "angular acceleration": "rad/s^2", "torque": "mNm", "driving torque": "Nm",
            "load torque": "mNm", "tangential force": "mN", "bending stress": "Pa", "contact stress": "Pa", "electric current": "mA", "pwm": ""}
    kw = dict(angular_position_unit="deg", angular_speed_unit="rpm", torque_unit="mNm", load_torque_unit="mNm", force_unit="mN", stress_unit="Pa",
              current_unit="mA")
    recorded = set()
    for e in pt.elements:
        recorded |= set(e.time_variables.keys())
    targets = [(N // 3, 0.0), (N // 2, 0.5), (N - 2, 0.25), (N - 1, 0.0), (0, 0.0)]
    selections = [None, ["angular speed", "torque", "tangential force", "bending stress"], ["pwm", "electric current", "contact stress"],
                  ["angular position"]]
    for sel in selections:
        if sel is not None:
            sel = [v for v in sel if v in recorded]
            if not sel:
                continue
        for (k, fr) in targets:
            k2 = min(k + 1, N - 1)
            tt = t[k] + fr * (t[k2] - t[k])
            try:
                df = pt.snapshot(Time(tt, "sec"), variables=list(sel) if sel is not None else None, print_data=False, **kw)
            except Exception as e:          # noqa: BLE001
                fails.append(dict(property="C18", scenario=name, relation="snapshot raised", target_time=tt, variables=sel, error=repr(e)))
                continue
            want_cols = {(f"{v} ({UNIT[v]})" if UNIT[v] else v) for v in (sel if sel is not None else recorded)}
            if set(df.columns) != want_cols:
                fails.append(dict(property="C18", scenario=name, relation="snapshot columns = the selected variables", variables=sel,
                                  got=sorted(df.columns), expected=sorted(want_cols)))
                continue
            for e in pt.elements:
                for v in (sel if sel is not None else recorded):
                    if v not in e.time_variables:
                        continue
                    ser = [x if isinstance(x, (int, float)) else x.to(UNIT[v]).value for x in e.time_variables[v]]
                    w = (tt - t[k]) / (t[k2] - t[k]) if k2 != k else 0.0
                    exp = ser[k] + w * (ser[k2] - ser[k])
                    got = df.loc[e.name, f"{v} ({UNIT[v]})" if UNIT[v] else v]
                    if got != got or abs(float(got) - exp) > 1e-7 * max(abs(exp), abs(ser[k]), abs(ser[k2]), 1e-9):
                        fails.append(dict(property="C18", scenario=name, element=e.name, variable=v, target_time=tt, got=float(got), expected=exp,
                                          relation="snapshot cell = linear interpolation of the neighbouring recorded samples in the requested unit"))
                        if len(fails) > 5:
                            return fails
    folder = tempfile.mkdtemp(prefix="pycv_export_")
    try:
        pt.export_time_variables(folder_path=os.path.join(folder, "out"), time_unit="ms", **kw)
        for e in pt.elements:
            with open(os.path.join(folder, "out", e.name + ".csv")) as f:
                rows = list(csv.reader(f))
            head, body = rows[0], rows[1:]
            if len(body) != N:
                fails.append(dict(property="C18", scenario=name, element=e.name, relation="export: one row per recorded instant", rows=len(body), instants=N))
                continue
            want = ["time (ms)"] + [(f"{v} ({UNIT[v]})" if UNIT[v] else v) for v in e.time_variables.keys()]
            if head != want:
                fails.append(dict(property="C18", scenario=name, element=e.name, relation="export: time + every recorded variable", got=head, expected=want))
                continue
            for ci, v in enumerate(["time"] + list(e.time_variables.keys())):
                ser = [x * 1000 for x in t] if v == "time" else [x if isinstance(x, (int, float)) else x.to(UNIT[v]).value for x in e.time_variables[v]]
                bad = [i for i in range(N) if abs(float(body[i][ci]) - ser[i]) > 1e-9 * max(abs(ser[i]), 1e-9)]
                if bad:
                    fails.append(dict(property="C18", scenario=name, element=e.name, variable=v, row=bad[0], got=body[bad[0]][ci], expected=ser[bad[0]],
                                      relation="export: cell = recorded sample in the requested unit"))
    except Exception as e:          # noqa: BLE001
        fails.append(dict(property="C18", scenario=name, relation="export raised", error=repr(e)))
    finally:
        shutil.rmtree(folder, ignore_errors=True)
    return fails


def run_corpus(props=None, max_failures=5):
    """-> list of failures over the whole corpus (optionally only the given properties)"""
    out = []
    for name, build in scenarios():
        try:
            d = build()
            fs = check(d, name)
            if props is not None and "C18" in props:
                fs = fs + check_c18(d, name)
            if props is not None and "C12" in props:
                fs = fs + check_c12(name, build)
        except Exception as e:          # noqa: BLE001
            fs = [dict(property="*", relation="scenario raised", scenario=name, error=repr(e))]
        for f in fs:
            if props is None or f["property"] in props or f["property"] == "*":
                out.append(f)
                if len(out) >= max_failures:
                    return out
    return out


if __name__ == "__main__":
    import json
    import sys
    fs = run_corpus(set(sys.argv[1:]) or None, max_failures=20)
    print(json.dumps(fs, indent=1, default=str))
    sys.exit(1 if fs else 0)
