"""pycv.sym -- symbolic proxy values and the path context.

CPython executes the *real* gearpy function objects; the values they compute on
are the proxies defined here.  A proxy builds z3 terms; every time the code
asks a proxy for a truth value (``if``, ``and``, ``or``, ``not``, ``while``)
the current path forks (``Ctx.decide``).

Number semantics (tier R): Python ``int``/``float`` arithmetic is modelled by
mathematical integers / reals.  Every evidence file lists this assumption.
"""
from __future__ import annotations

import builtins
import math
from fractions import Fraction

import z3

PI = Fraction(repr(math.pi))       # "math.pi stands for pi": one exact rational on both sides


class PathEnd(BaseException):
    """Current path is infeasible or was cut (loop invariant cut)."""


class EngineError(BaseException):
    """The proxies cannot carry a construct: never a verdict (exit 3)."""


class Undecided(Exception):
    """Solver could not decide feasibility of a branch."""


def to_frac(x):
    """Lift a concrete Python number to an exact rational (decimal as written)."""
    if isinstance(x, bool):
        return Fraction(int(x))
    if isinstance(x, int):
        return Fraction(x)
    if isinstance(x, Fraction):
        return x
    if isinstance(x, float):
        if x != x or x in (math.inf, -math.inf):
            raise EngineError(f"non-finite float {x!r} met a symbolic value")
        return Fraction(repr(float(x)))      # float(): numpy.float64 is a float subclass with its own repr
    try:                                   # numpy scalars
        import numpy as np
        if isinstance(x, np.floating):
            return to_frac(float(x))
        if isinstance(x, np.integer):
            return Fraction(int(x))
    except ImportError:                    # pragma: no cover
        pass
    raise TypeError(f"not a number: {x!r}")


def frac_term(fr: Fraction):
    return z3.RealVal(f"{fr.numerator}/{fr.denominator}") if fr.denominator != 1 else z3.RealVal(fr.numerator)


def is_number(x):
    if isinstance(x, (bool, int, float, Fraction)):
        return True
    t = type(x).__module__
    if t == 'numpy':
        import numpy as np
        return isinstance(x, (np.floating, np.integer))
    return False


# --------------------------------------------------------------------------
# path context
# --------------------------------------------------------------------------

class Ctx:
    """One execution of a job along one path (decision prefix replayed first)."""

    current: "Ctx | None" = None
    concrete = False

    def __init__(self, prefix=(), timeout_ms=10000):
        self.prefix = list(prefix)
        self.decisions = []        # list of [taken: bool, alt_feasible: bool]
        self.pc = []               # z3 Bool terms (path condition incl. assumptions)
        self.solver = z3.Solver()
        # feasibility checks are only an optimisation (unknown = explore the branch), keep them short
        self.solver.set("timeout", min(timeout_ms, 1500))
        self.timeout_ms = timeout_ms
        self.counter = 0
        self.side_obligations = []  # (clause_id, goal, pc_snapshot) proved in-path (e.g. sqrt argument >= 0)
        self.inputs = {}           # name -> z3 const, the job's symbolic inputs
        self.notes = []
        self.unknown_feasibility = 0
        self.events = []           # ghost trace (calls to contract stubs etc.)
        self.qhyps = []            # bounded-quantifier hypotheses (logic.Forall), instantiated at discharge time
        self.env = None            # L2 environment (abstract powertrain state), set by the job

    # -- symbols ---------------------------------------------------------
    def fresh_name(self, base):
        self.counter += 1
        return f"{base}!{self.counter}"

    def real(self, name, pytype='float', is_input=True, relax=False):
        """fresh symbolic number; relax=True: an int-typed value ranging over the reals
        (over-approximation, sound for proving; a model may be non-integral)"""
        if pytype == 'int' and not relax:
            c = z3.Int(name)
            t = z3.ToReal(c)
        else:
            c = z3.Real(name)
            t = c
        if is_input:
            self.inputs[name] = c
        return SymNum(t, pytype)

    def boolean(self, name, is_input=True):
        c = z3.Bool(name)
        if is_input:
            self.inputs[name] = c
        return SymBool(c)

    # -- path condition --------------------------------------------------
    def assume(self, cond):
        cond = as_bool_term(cond)
        if z3.is_true(cond):
            return
        self.pc.append(cond)
        self.solver.add(cond)

    def assume_checked(self, cond):
        """assume and end the path if it became infeasible"""
        self.assume(cond)
        r = self.solver.check()
        if r == z3.unsat:
            raise PathEnd()

    def _check(self, extra):
        from .solve import hard_check
        return hard_check(self.solver, min(self.timeout_ms, 1500), extra)

    def summarize(self, thunk):
        """Term for the truth value of a pure (state-reading, possibly forking) expression: every local
        branch is explored without touching the path; result = OR over the branches that returned a true value."""
        results = []
        work = [[]]
        saved = getattr(self, "_local", None)
        while work:
            forced = work.pop()
            loc = dict(forced=forced, taken=[], conds=[])
            self._local = loc
            try:
                v = thunk()
                if isinstance(v, SymBool):
                    v = v.term
                elif isinstance(v, z3.ExprRef):
                    pass
                else:
                    v = z3.BoolVal(bool(v))
            except (AttributeError, TypeError, ValueError, KeyError, ZeroDivisionError) as e:
                # an exception on a locally infeasible combination of branches is not a behaviour
                s_ = z3.Solver()
                s_.set("timeout", 2000)
                s_.add(*loc["conds"])
                if s_.check() != z3.unsat:
                    self._local = saved
                    raise EngineError(f"summarize: expression raises {type(e).__name__}: {e}")
                v = z3.BoolVal(False)
            finally:
                self._local = saved
            for k in range(len(forced), len(loc["taken"])):
                work.append(loc["taken"][:k] + [not loc["taken"][k]])
            results.append(z3.And(*loc["conds"], v) if loc["conds"] else v)
            if len(results) > 64:
                raise EngineError("summarize: too many local branches")
        return z3.simplify(z3.Or(*results)) if len(results) > 1 else z3.simplify(results[0])

    def decide(self, cond) -> bool:
        cond = z3.simplify(cond)
        if z3.is_true(cond):
            return True
        if z3.is_false(cond):
            return False
        loc = getattr(self, "_local", None)
        if loc is not None:
            k = len(loc["taken"])
            choice = loc["forced"][k] if k < len(loc["forced"]) else True
            loc["taken"].append(choice)
            loc["conds"].append(cond if choice else z3.Not(cond))
            return choice
        idx = len(self.decisions)
        if idx < len(self.prefix):
            taken = self.prefix[idx]
            self.decisions.append([taken, False])
            self.assume(cond if taken else z3.Not(cond))
            return taken
        rt = self._check(cond)
        rf = self._check(z3.Not(cond))
        if rt == z3.unknown or rf == z3.unknown:
            self.unknown_feasibility += 1
        t_ok = rt != z3.unsat
        f_ok = rf != z3.unsat
        if not t_ok and not f_ok:
            raise PathEnd()
        taken = t_ok
        self.decisions.append([taken, t_ok and f_ok])
        self.assume(cond if taken else z3.Not(cond))
        return taken

    def prove_in_path(self, clause_id, goal, note=None):
        """Record an obligation that must hold at this program point."""
        self.side_obligations.append((clause_id, goal, list(self.pc), note, list(self.qhyps)))

    def add_index_terms(self, terms):
        """more terms at which quantified hypotheses are instantiated eagerly (loop indices)"""
        self.extra_index_terms = getattr(self, "extra_index_terms", [])
        for t in terms:
            self.extra_index_terms.append(t)
            for q in self.qhyps:
                self.assume(q.at(t))

    def assume_goal(self, goal):
        """assume a goal that may contain bounded quantifiers"""
        from .logic import flatten_goal
        from .logic import Via
        plain, qs = flatten_goal(goal)
        for p in plain:
            self.assume(p.goal if isinstance(p, Via) else p)
        for q in qs:
            self.qhyps.append(q)
            if self.env is not None:
                for t in list(self.env.index_terms()) + list(getattr(self, "extra_index_terms", [])):
                    self.assume(q.at(t))


def ctx() -> Ctx:
    c = Ctx.current
    if c is None:
        raise EngineError("symbolic value used outside a path context")
    return c


# --------------------------------------------------------------------------
# SymBool
# --------------------------------------------------------------------------

def as_bool_term(x):
    if isinstance(x, SymBool):
        return x.term
    if isinstance(x, (bool,)):
        return z3.BoolVal(x)
    if isinstance(x, z3.BoolRef):
        return x
    try:
        import numpy as np
        if isinstance(x, np.bool_):
            return z3.BoolVal(bool(x))
    except ImportError:      # pragma: no cover
        pass
    raise TypeError(f"not a boolean: {x!r}")


class SymBool:
    __slots__ = ("term",)
    __hash__ = None

    def __init__(self, term):
        self.term = term

    def __bool__(self):
        return ctx().decide(self.term)

    # bitwise forms do not fork (used by contracts, rarely by code)
    def __and__(self, o):
        return SymBool(z3.And(self.term, as_bool_term(o)))
    __rand__ = __and__

    def __or__(self, o):
        return SymBool(z3.Or(self.term, as_bool_term(o)))
    __ror__ = __or__

    def __invert__(self):
        return SymBool(z3.Not(self.term))

    def __eq__(self, o):
        return SymBool(self.term == as_bool_term(o))

    def __ne__(self, o):
        return SymBool(self.term != as_bool_term(o))

    def __repr__(self):
        return f"SymBool({self.term})"

    # a bool is an int in Python: arithmetic on it (sum of booleans) is supported
    def _num(self):
        return SymNum(z3.If(self.term, z3.RealVal(1), z3.RealVal(0)), 'int')

    def __add__(self, o):
        return self._num() + o

    def __radd__(self, o):
        return o + self._num()


# --------------------------------------------------------------------------
# SymNum
# --------------------------------------------------------------------------

def _lift(x):
    """-> (term, pytype) or None"""
    if isinstance(x, SymNum):
        return x.term, x.pytype
    if isinstance(x, SymBool):
        n = x._num()
        return n.term, 'int'
    if isinstance(x, bool):
        return z3.RealVal(int(x)), 'int'
    if isinstance(x, int):
        return z3.RealVal(x), 'int'
    if isinstance(x, Fraction):
        return frac_term(x), ('int' if x.denominator == 1 else 'float')
    if isinstance(x, float):
        return frac_term(to_frac(x)), 'float'
    if is_number(x):
        fr = to_frac(x)
        import numpy as np
        return frac_term(fr), ('int' if isinstance(x, np.integer) else 'float')
    return None


def _rt(a, b):
    return 'int' if a == 'int' and b == 'int' else 'float'


class SymNum:
    """A Python int/float whose value is a z3 Real term."""
    __slots__ = ("term", "pytype", "iterm")
    __hash__ = None
    __array_priority__ = 1000       # numpy scalars defer to us

    def __init__(self, term, pytype='float', iterm=None):
        self.term = term
        self.pytype = pytype
        self.iterm = iterm          # Int-sorted twin of an int-typed value (for indexing), when known

    # -- arithmetic ------------------------------------------------------
    def _it(self, o, f):
        if self.iterm is None:
            return None
        if isinstance(o, SymNum) and o.iterm is not None:
            return f(self.iterm, o.iterm)
        if isinstance(o, int) and not isinstance(o, bool):
            return f(self.iterm, z3.IntVal(o))
        return None

    def __add__(self, o):
        l = _lift(o)
        if l is None:
            return NotImplemented
        return SymNum(self.term + l[0], _rt(self.pytype, l[1]), self._it(o, lambda a, b: a + b))

    def __radd__(self, o):
        l = _lift(o)
        if l is None:
            return NotImplemented
        return SymNum(l[0] + self.term, _rt(self.pytype, l[1]), self._it(o, lambda a, b: b + a))

    def __sub__(self, o):
        l = _lift(o)
        if l is None:
            return NotImplemented
        return SymNum(self.term - l[0], _rt(self.pytype, l[1]), self._it(o, lambda a, b: a - b))

    def __rsub__(self, o):
        l = _lift(o)
        if l is None:
            return NotImplemented
        return SymNum(l[0] - self.term, _rt(self.pytype, l[1]))

    def __mul__(self, o):
        l = _lift(o)
        if l is None:
            return NotImplemented
        return SymNum(self.term * l[0], _rt(self.pytype, l[1]))

    def __rmul__(self, o):
        l = _lift(o)
        if l is None:
            return NotImplemented
        return SymNum(l[0] * self.term, _rt(self.pytype, l[1]))

    def __truediv__(self, o):
        l = _lift(o)
        if l is None:
            return NotImplemented
        return _div(self.term, l[0])

    def __rtruediv__(self, o):
        l = _lift(o)
        if l is None:
            return NotImplemented
        return _div(l[0], self.term)

    def __neg__(self):
        return SymNum(-self.term, self.pytype)

    def __pos__(self):
        return self

    def __abs__(self):
        return SymNum(z3.If(self.term >= 0, self.term, -self.term), self.pytype)

    def __pow__(self, o):
        if isinstance(o, int) and not isinstance(o, bool) and 0 <= o <= 8:
            r = z3.RealVal(1)
            for _ in range(o):
                r = r * self.term
            return SymNum(r, self.pytype if o else 'int')
        if isinstance(o, (float, Fraction)) and to_frac(o) == Fraction(1, 2):
            return sym_sqrt(self)
        raise EngineError(f"unsupported power {o!r} of a symbolic number")

    def __rpow__(self, o):
        raise EngineError("symbolic exponent")

    def __float__(self):
        raise EngineError("float() of a symbolic number reached C code (concretisation refused)")

    def __int__(self):
        raise EngineError("int() of a symbolic number reached C code (concretisation refused)")

    __index__ = __int__

    def __round__(self, n=None):
        raise EngineError("round() of a symbolic number")

    # -- comparisons -----------------------------------------------------
    def _cmp(self, o, f):
        l = _lift(o)
        if l is None:
            return NotImplemented
        return SymBool(z3.simplify(f(self.term, l[0])))

    def __lt__(self, o):
        return self._cmp(o, lambda a, b: a < b)

    def __le__(self, o):
        return self._cmp(o, lambda a, b: a <= b)

    def __gt__(self, o):
        return self._cmp(o, lambda a, b: a > b)

    def __ge__(self, o):
        return self._cmp(o, lambda a, b: a >= b)

    def __eq__(self, o):
        l = _lift(o)
        if l is None:
            return False if o is not None else False
        return SymBool(z3.simplify(self.term == l[0]))

    def __ne__(self, o):
        l = _lift(o)
        if l is None:
            return True
        return SymBool(z3.simplify(self.term != l[0]))

    def __bool__(self):
        return ctx().decide(self.term != 0)

    def __repr__(self):
        return f"SymNum<{self.pytype}>({self.term})"

    def __format__(self, spec):
        return f"<sym {self.term}>"


def _div(num, den):
    c = ctx()
    if c.decide(den == 0):
        raise ZeroDivisionError("division by zero")
    return SymNum(num / den, 'float')


def sym(x, pytype=None):
    """Lift any number to SymNum."""
    if isinstance(x, SymNum):
        return x
    l = _lift(x)
    if l is None:
        raise TypeError(f"cannot lift {x!r}")
    return SymNum(l[0], pytype or l[1])


def term_of(x):
    if isinstance(x, z3.ExprRef):
        return x
    l = _lift(x)
    if l is None:
        raise TypeError(f"not a number: {x!r}")
    return l[0]


def is_sym(x):
    return isinstance(x, (SymNum, SymBool))


# --------------------------------------------------------------------------
# uninterpreted mathematics
# --------------------------------------------------------------------------

_R = z3.RealSort()
UF = {name: z3.Function(name, _R, _R) for name in ("sin", "cos", "tan", "atan", "sqrt")}


def _uf(name, x, native):
    if not isinstance(x, (SymNum, SymBool)):
        return native(x)
    t = term_of(x)
    return SymNum(UF[name](t), 'float')


def sym_sin(x):
    r = _uf("sin", x, math.sin)
    _trig_axioms(x)
    return r


def sym_cos(x):
    r = _uf("cos", x, math.cos)
    _trig_axioms(x)
    return r


def sym_tan(x):
    r = _uf("tan", x, math.tan)
    _trig_axioms(x)
    return r


PI_UP = PI + Fraction(1, 10 ** 15)      # a rational above pi (PI itself is the decimal expansion of math.pi, below pi)


def sym_atan(x):
    if not is_sym(x):
        return math.atan(x)
    t = term_of(x)
    r = UF["atan"](t)
    c = ctx()
    # tan(atan(x)) = x ; -pi/2 < atan(x) < pi/2 ; sign(atan x) = sign(x) ; cos(atan(x)) > 0
    c.assume(UF["tan"](r) == t)
    c.assume(UF["cos"](r) > 0)
    c.assume(z3.And(r > -frac_term(PI_UP / 2), r < frac_term(PI_UP / 2)))
    c.assume(z3.And((r >= 0) == (t >= 0), (r == 0) == (t == 0)))
    c.assume(z3.And((UF["sin"](r) >= 0) == (t >= 0), (UF["sin"](r) == 0) == (t == 0)))
    _trig_axioms(SymNum(r))
    return SymNum(r, 'float')


def _trig_axioms(x):
    """Instance axioms for the argument x (sound facts about real sin/cos/tan)."""
    if not is_sym(x):
        return
    t = term_of(x)
    c = ctx()
    s, co, ta = UF["sin"](t), UF["cos"](t), UF["tan"](t)
    c.assume(s * s + co * co == 1)
    c.assume(z3.Implies(co != 0, ta * co == s))
    c.assume(z3.And(s >= -1, s <= 1, co >= -1, co <= 1))
    # first quadrant (PI/2 below pi/2, so the region is inside the true first quadrant)
    half = frac_term(PI / 2)
    c.assume(z3.Implies(z3.And(t >= 0, t < half), z3.And(co > 0, s >= 0, ta >= 0)))
    c.assume(z3.Implies(z3.And(t > 0, t < half), z3.And(s > 0, ta > 0)))
    c.assume(z3.Implies(t == 0, z3.And(s == 0, co == 1, ta == 0)))
    ts = z3.simplify(t)
    if z3.is_rational_value(ts):
        # a literal angle (e.g. the 20 degree pressure angle): enclose the values numerically
        v = float(ts.as_fraction())
        for f, val in ((s, math.sin(v)), (co, math.cos(v)), (ta, math.tan(v))):
            if abs(val) < 1e6:
                eps = 1e-12 * max(1.0, abs(val))
                c.assume(z3.And(f >= frac_term(Fraction(repr(val - eps))), f <= frac_term(Fraction(repr(val + eps)))))


def sym_sqrt(x):
    if not is_sym(x):
        return math.sqrt(x)
    t = term_of(x)
    c = ctx()
    c.prove_in_path("sqrt-argument-nonnegative", t >= 0)
    r = UF["sqrt"](t)
    c.assume(z3.Implies(t >= 0, z3.And(r >= 0, r * r == t)))
    return SymNum(r, 'float')


def sym_fabs(x):
    if not is_sym(x):
        return math.fabs(x)
    return abs(sym(x))


# --------------------------------------------------------------------------
# shadow builtins (installed into gearpy module globals by pycv.patch)
# --------------------------------------------------------------------------

def _unpack_types(cls):
    if isinstance(cls, tuple):
        out = []
        for c in cls:
            out.extend(_unpack_types(c))
        return out
    args = getattr(cls, "__args__", None)
    if args is not None and type(cls).__name__ in ("UnionType", "_UnionGenericAlias", "_Union"):
        out = []
        for c in args:
            out.extend(_unpack_types(c))
        return out
    if cls is ShadowFloat:
        return [float]
    if cls is ShadowInt:
        return [int]
    return [cls]


# hooks so that other proxy kinds (SymQ, ElemRef) can take part in isinstance
ISINSTANCE_HOOKS = []


def sym_isinstance(obj, cls):
    if isinstance(obj, SymNum):
        for t in _unpack_types(cls):
            if t is float and obj.pytype == 'float':
                return True
            if t is int and obj.pytype == 'int':
                return True
            if t is object:
                return True
        return False
    if isinstance(obj, SymBool):
        return any(t in (bool, int, object) for t in _unpack_types(cls))
    for hook in ISINSTANCE_HOOKS:
        r = hook(obj, cls)
        if r is not None:
            return r
    types = _unpack_types(cls)
    real = tuple(t for t in types if isinstance(t, type))
    if len(real) != len(types):
        # stub classes (contract factories) that are not real types never match real objects
        return builtins.isinstance(obj, real) if real else False
    return builtins.isinstance(obj, real)


def sym_abs(x):
    return abs(x)


def sym_float(x=0.0):
    if isinstance(x, SymNum):
        return SymNum(x.term, 'float')
    if isinstance(x, SymBool):
        return SymNum(x._num().term, 'float')
    return builtins.float(x)


def sym_int(x=0):
    if isinstance(x, SymNum):
        if x.pytype == 'int':
            return x
        raise EngineError("int() truncation of a symbolic float")
    return builtins.int(x)


def sym_min(*args, **kw):
    if len(args) == 1:
        args = tuple(args[0])
    if len(args) == 1 and not kw:
        return args[0]
    if not any(is_sym(a) for a in args) or kw:
        return builtins.min(*args, **kw)
    best = args[0]
    for a in args[1:]:
        # CPython: min keeps the first of equal elements; replaces when a < best
        lt = a < best
        lt_t = as_bool_term(lt)
        bt, bp = _lift(best)
        at, ap = _lift(a)
        best = SymNum(z3.If(lt_t, at, bt), _rt(ap, bp) if ap != bp else ap)
    return best


def sym_max(*args, **kw):
    if len(args) == 1:
        args = tuple(args[0])
    if len(args) == 1 and not kw:
        return args[0]
    if not any(is_sym(a) for a in args) or kw:
        return builtins.max(*args, **kw)
    best = args[0]
    for a in args[1:]:
        gt = a > best
        gt_t = as_bool_term(gt)
        bt, bp = _lift(best)
        at, ap = _lift(a)
        best = SymNum(z3.If(gt_t, at, bt), _rt(ap, bp) if ap != bp else ap)
    return best


def sym_sum(iterable, start=0):
    total = start
    for x in iterable:
        total = total + x
    return total


class _ShadowFloatMeta(type):
    """`float` as seen by patched modules: callable on proxies, still a type for `float | int`."""

    def __call__(cls, x=0.0):
        return sym_float(x)

    def __instancecheck__(cls, obj):
        return sym_isinstance(obj, builtins.float)


class ShadowFloat(metaclass=_ShadowFloatMeta):
    pass


class _ShadowIntMeta(type):
    """`int` as seen by patched modules: identity on integer-typed proxies, still a type for `float | int` / isinstance"""

    def __call__(cls, x=0, *a):
        return sym_int(x) if not a else builtins.int(x, *a)

    def __instancecheck__(cls, obj):
        return sym_isinstance(obj, builtins.int)


class ShadowInt(metaclass=_ShadowIntMeta):
    pass


SHADOW_BUILTINS = {
    "int": ShadowInt,
    "isinstance": sym_isinstance,
    "abs": sym_abs,
    "float": ShadowFloat,
    "min": sym_min,
    "max": sym_max,
    "sum": sym_sum,
}
