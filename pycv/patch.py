"""pycv.patch -- mechanical patching of the imported gearpy modules (verification process only).

* shadow builtins (isinstance, abs, float, min, max, sum) as module globals;
* math functions imported by name (sin, cos, tan, atan, sqrt, fabs) and the
  constant `pi` become their symbolic/exact counterparts;
* unit tables (`__UNITS`) and float default arguments are re-evaluated from
  their AST in exact rational arithmetic (pi := sym.PI, decimals as written).

Everything done here is listed in the evidence (`patches`).
"""
from __future__ import annotations

import ast
import inspect
import math
import sys
import textwrap
from fractions import Fraction

from . import sym

PATCH_LOG = []


def exact_eval(node, src, names):
    """Evaluate a constant arithmetic expression exactly."""
    if isinstance(node, ast.Constant):
        if isinstance(node.value, bool):
            raise sym.EngineError("bool in constant expression")
        if isinstance(node.value, int):
            return Fraction(node.value)
        if isinstance(node.value, float):
            seg = ast.get_source_segment(src, node)
            return Fraction(seg.replace("_", "")) if seg else Fraction(repr(node.value))
        raise sym.EngineError(f"constant {node.value!r}")
    if isinstance(node, ast.Name):
        if node.id in names:
            return names[node.id]
        raise sym.EngineError(f"name {node.id} in constant expression")
    if isinstance(node, ast.UnaryOp) and isinstance(node.op, (ast.USub, ast.UAdd)):
        v = exact_eval(node.operand, src, names)
        return -v if isinstance(node.op, ast.USub) else v
    if isinstance(node, ast.BinOp):
        a = exact_eval(node.left, src, names)
        b = exact_eval(node.right, src, names)
        if isinstance(node.op, ast.Add):
            return a + b
        if isinstance(node.op, ast.Sub):
            return a - b
        if isinstance(node.op, ast.Mult):
            return a * b
        if isinstance(node.op, ast.Div):
            return a / b
        if isinstance(node.op, ast.Pow) and b.denominator == 1:
            return a ** int(b)
    raise sym.EngineError(f"cannot evaluate exactly: {ast.dump(node)}")


def exact_unit_tables(units_module):
    """-> {class_name: {unit: Fraction}} read from the module's source AST."""
    src = inspect.getsource(units_module)
    tree = ast.parse(src)
    out = {}
    for node in tree.body:
        if isinstance(node, ast.ClassDef):
            for st in node.body:
                if isinstance(st, ast.Assign) and len(st.targets) == 1 and isinstance(st.targets[0], ast.Name) \
                        and st.targets[0].id == "__UNITS" and isinstance(st.value, ast.Dict):
                    tab = {}
                    for k, v in zip(st.value.keys, st.value.values):
                        if not (isinstance(k, ast.Constant) and isinstance(k.value, str)):
                            raise sym.EngineError("non-literal unit key")
                        tab[k.value] = exact_eval(v, src, {"pi": sym.PI})
                    out[node.name] = tab
    return out


def patch_unit_tables(units_module):
    tabs = exact_unit_tables(units_module)
    for cname, tab in tabs.items():
        cls = getattr(units_module, cname)
        attr = f"_{cname}__UNITS"
        native = getattr(cls, attr)
        if set(native.keys()) != set(tab.keys()):
            raise sym.EngineError(f"unit table of {cname}: AST keys differ from the imported class")
        for k in tab:
            if abs(float(tab[k]) - float(native[k])) > 1e-15 * abs(float(native[k])):
                raise sym.EngineError(f"unit table of {cname}[{k}]: exact re-evaluation disagrees with the import")
        # keep insertion order of the native table
        setattr(cls, attr, {k: tab[k] for k in native})
        PATCH_LOG.append(f"{units_module.__name__}.{cname}.__UNITS re-evaluated exactly from its AST ({len(tab)} units)")
    return tabs


def patch_float_defaults(module):
    """Re-evaluate float default arguments (e.g. frequency=1/2/pi) exactly from the AST."""
    src = inspect.getsource(module)
    tree = ast.parse(src)
    n = 0

    def visit(cls_obj, fn_node):
        nonlocal n
        f = cls_obj.__dict__.get(fn_node.name) if cls_obj is not None else getattr(module, fn_node.name, None)
        if isinstance(f, property) or f is None or not hasattr(f, "__defaults__") or not f.__defaults__:
            return
        defaults = list(f.__defaults__)
        nodes = fn_node.args.defaults
        if len(nodes) != len(defaults):
            return
        changed = False
        for i, (d, nd) in enumerate(zip(defaults, nodes)):
            if isinstance(d, float):
                try:
                    defaults[i] = exact_eval(nd, src, {"pi": sym.PI})
                    changed = True
                except sym.EngineError:
                    pass
        if changed:
            f.__defaults__ = tuple(defaults)
            n += 1

    for node in tree.body:
        if isinstance(node, ast.ClassDef):
            cls = getattr(module, node.name, None)
            for st in node.body:
                if isinstance(st, ast.FunctionDef) and cls is not None:
                    visit(cls, st)
        elif isinstance(node, ast.FunctionDef):
            visit(None, node)
    if n:
        PATCH_LOG.append(f"{module.__name__}: {n} float default argument(s) re-evaluated exactly from the AST")


_MATH = {
    math.sin: sym.sym_sin, math.cos: sym.sym_cos, math.tan: sym.sym_tan, math.atan: sym.sym_atan,
    math.sqrt: sym.sym_sqrt, math.fabs: sym.sym_fabs,
}


class _MathProxy:
    """Stands for `math` / `np` module globals: symbolic versions of the functions we model."""

    def __init__(self, real, extra=None):
        self._real = real
        self._extra = extra or {}

    def __getattr__(self, name):
        if name in self._extra:
            return self._extra[name]
        if self._real is math and name in ("sin", "cos", "tan", "atan", "sqrt", "fabs"):
            return getattr(sym, "sym_" + name)
        if name == "pi":
            return sym.PI
        return getattr(self._real, name)


def patch_module_globals(module, extra=None):
    g = module.__dict__
    for k, v in sym.SHADOW_BUILTINS.items():
        g[k] = v
    for k, v in list(g.items()):
        try:
            if v in _MATH:
                g[k] = _MATH[v]
        except TypeError:
            continue
    if g.get("pi") is math.pi or (isinstance(g.get("pi"), float) and g.get("pi") == math.pi):
        g["pi"] = sym.PI
    if g.get("math") is math:
        g["math"] = _MathProxy(math)
    np = sys.modules.get("numpy")
    if np is not None:
        for alias in ("np", "numpy"):
            if g.get(alias) is np:
                g[alias] = _MathProxy(np, {"sqrt": sym.sym_sqrt, **(extra or {})})
    PATCH_LOG.append(f"{module.__name__}: shadow builtins + symbolic math installed")


def patch_all_gearpy(extra_np=None):
    import gearpy  # noqa: F401
    mods = [m for n, m in sorted(sys.modules.items()) if (n == "gearpy" or n.startswith("gearpy.")) and m is not None]
    for m in mods:
        patch_module_globals(m, extra_np)
    import gearpy.units.units as U
    tabs = patch_unit_tables(U)
    patch_float_defaults(U)
    return tabs
