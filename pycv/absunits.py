"""pycv.absunits -- the *contract* of the unit layer, as one abstract semantics.

`absop` / `abs_to` / `abs_cmp` describe, for every operator of every unit
class, the outcome (exception class and its exact condition, or result kind,
unit and value).  They are used twice:

* L1 (contracts/units.py) proves that the real methods of gearpy.units satisfy
  them for all values and all units  (clauses `...:matches-abstract-contract`);
* `SymQ`, the abstract quantity that stands for a gearpy quantity above the unit
  layer, *executes* them, so callers are verified against the callee's
  contract, not its body, and with *symbolic units*.

Derived from the code and its call sites (helper contracts); the top-level
postconditions (SI magnitude, kinds) come from the property statements and are
separate clauses at L1.
"""
from __future__ import annotations

from fractions import Fraction

import z3

from . import logic as L
from . import spec
from . import sym
from .sym import SymBool, SymNum, ctx, is_number

TOL = Fraction(1, 10 ** 12)

# result unit of the cross-kind operators (the code builds them in SI units)
CROSS_UNIT = {"AngularPosition": "rad", "AngularSpeed": "rad/s", "AngularAcceleration": "rad/s^2",
              "Force": "N", "Stress": "Pa", "Surface": "m^2"}
SI_UNIT = {"AngularPosition": "rad", "Angle": "rad", "AngularSpeed": "rad/s", "AngularAcceleration": "rad/s^2",
           "InertiaMoment": "kgm^2", "Torque": "Nm", "Time": "sec", "TimeInterval": "sec", "Length": "m",
           "Surface": "m^2", "Force": "N", "Stress": "Pa", "Current": "A"}

_FAC = {}


def _fac_fn(base):
    if base not in _FAC:
        _FAC[base] = z3.Function(f"fac_{base}", z3.IntSort(), z3.RealSort())
    return _FAC[base]


class SymUnit:
    """A symbolic unit of one kind: an index into the kind's table; fac(u) > 0 is all that is known."""
    __slots__ = ("base", "idx", "name")
    __hash__ = None

    def __init__(self, kind, name=None, idx=None):
        self.base = spec.BASE_KIND[kind]
        if idx is not None:
            # a unit read from the abstract state: positivity of its factor comes from the state invariant
            self.idx = idx
            self.name = str(idx)
            return
        self.name = name
        self.idx = z3.Int(name)
        c = ctx()
        c.inputs[name] = self.idx
        c.inputs[name + "#fac"] = _fac_fn(self.base)(self.idx)
        c.assume(_fac_fn(self.base)(self.idx) > 0)
        # a symbolic unit is one of the kind's real units: its factor lies between the smallest and the largest
        vals = list(spec.SI_TABLE[self.base].values())
        c.assume(z3.And(_fac_fn(self.base)(self.idx) >= sym.frac_term(min(vals)),
                        _fac_fn(self.base)(self.idx) <= sym.frac_term(max(vals))))

    def factor(self):
        return _fac_fn(self.base)(self.idx)

    def __eq__(self, o):
        if o is self:
            return True
        if isinstance(o, SymUnit):
            if o.base != self.base:
                return False
            return SymBool(self.idx == o.idx)
        if isinstance(o, str):
            # a symbolic unit may be any unit of the table, including this literal one
            f = spec.SI_TABLE[self.base].get(o)
            if f is None:
                return False
            return SymBool(z3.And(self.idx == _unit_index(self.base, o)))
        return False

    def __ne__(self, o):
        r = self.__eq__(o)
        if isinstance(r, SymBool):
            return SymBool(z3.Not(r.term))
        return not r

    def __repr__(self):
        return f"<unit {self.name}>"

    def __format__(self, s):
        return repr(self)


def _unit_index(base, u):
    return list(spec.SI_TABLE[base]).index(u)


def fac(kind, unit):
    """SI value of one `unit` (exact Fraction for a literal unit, a term for a symbolic one)."""
    if isinstance(unit, SymUnit):
        return unit.factor()
    f = spec.si_factor(kind, unit)
    if f is None:
        raise KeyError(unit)
    return f


def unit_known(kind, unit):
    if isinstance(unit, SymUnit):
        return unit.base == spec.BASE_KIND[kind]
    return isinstance(unit, str) and unit in spec.SI_TABLE[kind]


def same_unit(ua, ub):
    """truth of `ua == ub` as the code would compute it (may be symbolic)"""
    if ua is ub:
        return True
    if isinstance(ua, SymUnit) or isinstance(ub, SymUnit):
        r = (ua == ub)
        return r.term if isinstance(r, SymBool) else r
    return ua == ub


def sign_violated(kind, v):
    s = spec.SIGN.get(kind)
    if s == "pos":
        return L.le(v, 0)
    if s == "nonneg":
        return L.lt(v, 0)
    return False


def convert(kind, value, src, tgt):
    """value of the same magnitude in unit tgt (the contract of to())"""
    if src is tgt or (isinstance(src, str) and isinstance(tgt, str) and src == tgt):
        return value
    return L.div(L.mul(value, fac(kind, src)), fac(kind, tgt))


# outcome constructors -----------------------------------------------------

def OK(kind, unit, value):
    return ("ok", kind, unit, value)


def NUMBER(value):
    return ("num", value)


def absop(op, A, B):
    """Abstract semantics of `A op B`.

    A, B: ('q', kind, unit, value) | ('n', value, pytype)
    -> decision list [(condition, outcome), ...]; the first condition that holds decides.
       outcome: 'TypeError' | 'ZeroDivisionError' | 'ValueError' | OK(kind, unit, value) | NUMBER(value)
    """
    qa, qb = A[0] == "q", B[0] == "q"
    ka = A[1] if qa else spec.NUM
    kb = B[1] if qb else spec.NUM
    res = spec.dimension(op, ka, kb)
    out = []
    if not qa:
        # number on the left: only number * quantity is defined (reflected multiplication)
        if op != "mul" or not qb:
            return [(True, "TypeError")]
        n = A[1]
        _, K, u, y = B
        out.append((sign_violated(K, n) if K in spec.SIGN else False, "ValueError"))
        out.append((True, OK(K, u, L.mul(y, n))))
        return out
    _, K, ua, x = A
    if not qb:
        n = B[1]
        if op in ("add", "sub"):
            return [(True, "TypeError")]
        if op == "mul":
            out.append((sign_violated(K, n) if K in spec.SIGN else False, "ValueError"))
            out.append((True, OK(K, ua, L.mul(x, n))))
            return out
        out.append((L.eq(n, 0), "ZeroDivisionError"))
        if K in spec.SIGN:
            out.append((_div_violates(K, x, n), "ValueError"))
        out.append((True, OK(K, ua, _safe_div(x, n))))
        return out
    _, Kb, ub, y = B
    if op == "div":
        out.append((L.eq(y, 0), "ZeroDivisionError"))
    if res == "TypeError":
        out.append((True, "TypeError"))
        return out
    if op in ("add", "sub"):
        yb = convert(Kb, y, ub, ua)
        primary = L.add(x, yb) if op == "add" else L.sub(x, yb)
        # the base-class method first builds the result in the LEFT operand's class
        out.append((sign_violated(K, primary) if K in spec.SIGN else False, "ValueError"))
        value = primary
        if op == "sub" and K != Kb and K in ("Angle", "TimeInterval") and subkind_minus_base_adds(K):
            value = L.add(x, yb)        # library behaviour (known finding KF-C06-subkind-minus-base-adds)
        out.append((True, OK(res, ua, value)))
        return out
    if op == "div" and res == spec.NUM:
        out.append((True, NUMBER(_safe_div(x, convert(Kb, y, ub, ua)))))
        return out
    # cross-kind product / quotient, built in SI units
    X = L.mul(x, fac(K, ua))
    Y = L.mul(y, fac(Kb, ub))
    val = L.mul(X, Y) if op == "mul" else _safe_div(X, Y)
    out.append((True, OK(res, CROSS_UNIT[res], val)))
    return out


_SUBKIND_PROBE = {}


def subkind_minus_base_adds(K):
    """Known finding D11: `Angle - AngularPosition` and `TimeInterval - Time` return the SUM.  Which of the two candidate
    semantics (the recorded deviation / the arithmetic difference) the abstract contract states is selected by ONE concrete
    probe of the real operator; the selected statement is then proved for all operands by the helper clause as usual.  So a tree
    in which the deviation has been repaired verifies too (and the known finding is then simply not reported)."""
    if K not in _SUBKIND_PROBE:
        import gearpy.units as GU
        try:
            if K == "Angle":
                r = GU.Angle(3, "rad") - GU.AngularPosition(1, "rad")
            else:
                r = GU.TimeInterval(3, "sec") - GU.Time(1, "sec")
            _SUBKIND_PROBE[K] = float(r.value) == 4.0
        except Exception:           # noqa: BLE001
            _SUBKIND_PROBE[K] = True
    return _SUBKIND_PROBE[K]


def _safe_div(a, b):
    if not L._symbolic(a, b) and float(b) == 0:
        return float("nan")          # concrete replay: this outcome is guarded by the earlier `y == 0 -> ZeroDivisionError` case
    return L.div(a, b)


def _div_violates(K, x, n):
    # K(x/n) is constructed: rejected iff x/n violates K's constraint (n != 0 here)
    s = spec.SIGN[K]
    if s == "pos":
        return L.lt(n, 0)             # x > 0 by the class invariant
    return L.And(L.gt(x, 0), L.lt(n, 0))


def abs_cmp(op, A, B):
    """truth value of `A op B` for two quantities of the same base kind (the library's tolerance rule)."""
    _, Ka, ua, x = A
    _, Kb, ub, y = B
    su = same_unit(ua, ub)
    d = L.sub(x, convert(Kb, y, ub, ua))
    exact = {"eq": L.eq(x, y), "ne": L.ne(x, y), "lt": L.lt(x, y), "le": L.le(x, y), "gt": L.gt(x, y),
             "ge": L.ge(x, y)}[op]
    tol = {"eq": L.lt(L.absv(d), TOL), "ne": L.gt(L.absv(d), TOL), "gt": L.gt(d, TOL), "ge": L.ge(d, -TOL),
           "lt": L.lt(d, -TOL), "le": L.le(d, TOL)}[op]
    if su is True:
        return exact
    if su is False:
        return tol
    return z3.If(su, L._b(exact), L._b(tol))


# ---------------------------------------------------------------------------
# SymQ: the abstract quantity used above the unit layer
# ---------------------------------------------------------------------------

class SymQ:
    """Abstract quantity whose methods ARE the unit-layer contracts.

    Representation: (kind, unit, SI magnitude).  The raw `.value` is derived on demand as si / fac(unit).
    Outcome classes and result magnitudes are those of `absop` evaluated on the operands expressed in SI units
    (justified at L1: the real operators match `absop` for all units, and `absop` is unit-independent --
    clauses helper:op-matches-abstract-contract / helper:abstract-contract-is-unit-independent); the result unit
    is the one `absop` gives for the operands' actual units.
    """
    __hash__ = None
    __array_priority__ = 2000

    def __init__(self, kind, si, unit):
        self.kind = kind
        self._si = si
        self._unit = unit

    # factory = contract of the constructor
    @staticmethod
    def make(kind, value=None, unit=None):
        if not (isinstance(value, SymNum) or is_number(value)):
            raise TypeError("Parameter 'value' must be a float or an integer.")
        if not isinstance(unit, (str, SymUnit)):
            raise TypeError("Parameter 'unit' must be a string.")
        if not unit_known(kind, unit):
            raise KeyError(f"{kind} unit {unit!r} not available.")
        ctx().events.append(("ctor", kind))
        if _truth(sign_violated(kind, value)):
            raise ValueError("sign constraint violated")
        return SymQ(kind, _num(L.mul(value, fac(kind, unit))), unit)

    @property
    def value(self):
        f = fac(self.kind, self._unit)
        if isinstance(f, Fraction) and f == 1:
            return self._si
        return _num(L.div(self._si, f))

    @property
    def unit(self):
        return self._unit

    @property
    def __class__(self):          # so that obj.__class__.__name__ in messages works
        return _KindClass.get(self.kind)

    def si(self):
        return L.num(self._si)

    def to(self, target_unit, inplace=False):
        if not isinstance(target_unit, (str, SymUnit)):
            raise TypeError("Parameter 'target_unit' must be a string.")
        if not isinstance(inplace, bool):
            raise TypeError("Parameter 'inplace' must be a bool.")
        if not unit_known(self.kind, target_unit):
            raise KeyError(target_unit)
        ctx().events.append(("to", self.kind))
        if inplace:
            self._unit = target_unit
            return self
        return SymQ(self.kind, self._si, target_unit)

    def _tup(self):
        """operand as absop sees it, expressed in the SI unit"""
        return ("q", self.kind, SI_UNIT[self.kind], self._si)

    def _tup_units(self):
        return ("q", self.kind, self._unit, None)

    def _binop(self, op, other, reflected=False):
        o = _operand(other)
        if o is None:
            raise TypeError(f"unsupported operand for {op}: {type(other).__name__}")
        me_u = self._unit
        ot_u = other._unit if isinstance(other, SymQ) else (other.unit if _real_quantity(other) else None)
        A, B = (o, self._tup()) if reflected else (self._tup(), o)
        ua, ub = (ot_u, me_u) if reflected else (me_u, ot_u)
        ctx().events.append(("op", op, A[1] if A[0] == "q" else A[2], B[1] if B[0] == "q" else B[2]))
        for cond, outcome in absop(op, A, B):
            if not _truth(cond):
                continue
            if outcome == "TypeError":
                raise TypeError(f"It is not allowed to {op} these operands.")
            if outcome == "ZeroDivisionError":
                raise ZeroDivisionError("It is not allowed to divide a Unit by zero.")
            if outcome == "ValueError":
                raise ValueError("result violates the sign constraint")
            if outcome[0] == "num":
                return _num(outcome[1])
            _, K, u_si, v = outcome
            return SymQ(K, _num(v), result_unit(op, A, B, ua, ub, K))
        raise sym.EngineError("absop: empty decision list")

    def __add__(self, o):
        return self._binop("add", o)

    def __sub__(self, o):
        return self._binop("sub", o)

    def __mul__(self, o):
        return self._binop("mul", o)

    def __rmul__(self, o):
        return self._binop("mul", o, reflected=True)

    def __truediv__(self, o):
        return self._binop("div", o)

    def __radd__(self, o):
        raise TypeError("unsupported operand")

    __rsub__ = __radd__
    __rtruediv__ = __radd__

    def __neg__(self):
        ctx().events.append(("unary", "neg", self.kind))
        v = _num(L.sub(0, self._si))
        if _truth(sign_violated(self.kind, v)):
            raise ValueError("sign constraint violated")
        return SymQ(self.kind, v, self._unit)

    def __abs__(self):
        ctx().events.append(("unary", "abs", self.kind))
        return SymQ(self.kind, _num(L.absv(L.num(self._si))) if sym.is_sym(self._si) else abs(self._si), self._unit)

    def _cmp(self, op, o):
        if not isinstance(o, SymQ) and _real_quantity(o):
            o = lift_real(o)
        if not isinstance(o, SymQ) or spec.BASE_KIND[o.kind] != spec.BASE_KIND[self.kind]:
            raise TypeError(f"Cannot compare {self.kind} and {type(o).__name__}.")
        ctx().events.append(("cmp", op, self.kind, o.kind))
        if o.kind != self.kind and spec.BASE_KIND[o.kind] == self.kind:
            # CPython: the right operand's rich comparison has priority when its class is a proper subclass
            swap = {"eq": "eq", "ne": "ne", "lt": "gt", "gt": "lt", "le": "ge", "ge": "le"}
            t = abs_cmp_si(swap[op], o.si(), fac(o.kind, o._unit), self.si(), same_unit(o._unit, self._unit))
        else:
            t = abs_cmp_si(op, self.si(), fac(self.kind, self._unit), o.si(), same_unit(self._unit, o._unit))
        if isinstance(t, z3.ExprRef):
            return SymBool(z3.simplify(t))
        return bool(t)

    def __eq__(self, o):
        return self._cmp("eq", o)

    def __ne__(self, o):
        return self._cmp("ne", o)

    def __lt__(self, o):
        return self._cmp("lt", o)

    def __le__(self, o):
        return self._cmp("le", o)

    def __gt__(self, o):
        return self._cmp("gt", o)

    def __ge__(self, o):
        return self._cmp("ge", o)

    def sin(self, frequency=None):
        return self._trig(sym.sym_sin, frequency)

    def cos(self, frequency=None):
        return self._trig(sym.sym_cos, frequency)

    def tan(self, frequency=None):
        return self._trig(sym.sym_tan, frequency)

    def _trig(self, f, frequency):
        if self.kind not in ("Angle", "AngularPosition"):
            raise AttributeError("trig of a non-angle")
        x = self._si
        if frequency is not None:
            x = 2 * sym.PI * frequency * x
        return f(x if sym.is_sym(x) else sym.sym(x))

    def __repr__(self):
        return f"SymQ<{self.kind}>(si={self._si!r} unit={self._unit!r})"

    def __format__(self, s):
        return repr(self)


def result_unit(op, A, B, ua, ub, K):
    """unit label of the result (from the library: left quantity operand's unit, or the SI unit for cross-kind results)"""
    qa, qb = A[0] == "q", B[0] == "q"
    if qa and qb:
        if op in ("add", "sub"):
            return ua
        return CROSS_UNIT[K]
    return ua if qa else ub


def abs_cmp_si(op, sx, fa, sy, su):
    """the library's comparison rule on SI magnitudes: exact when the units are the same, otherwise the absolute
    tolerance 1e-12 measured in the LEFT operand's unit (fa = SI value of one left unit)"""
    exact = {"eq": L.eq(sx, sy), "ne": L.ne(sx, sy), "lt": L.lt(sx, sy), "le": L.le(sx, sy), "gt": L.gt(sx, sy),
             "ge": L.ge(sx, sy)}[op]
    d = L.sub(sx, sy)
    tf = L.mul(TOL, fa)
    ntf = L.mul(-TOL, fa)
    tol = {"eq": L.And(L.lt(d, tf), L.gt(d, ntf)), "ne": L.Or(L.gt(d, tf), L.lt(d, ntf)), "gt": L.gt(d, tf),
           "ge": L.ge(d, ntf), "lt": L.lt(d, ntf), "le": L.le(d, tf)}[op]
    if su is True:
        return exact
    if su is False:
        return tol
    return z3.If(su, L._b(exact), L._b(tol))


class _KindClass:
    """tiny stand-ins so that `x.__class__.__name__` yields the kind name"""
    _cache = {}

    @classmethod
    def get(cls, kind):
        if kind not in cls._cache:
            cls._cache[kind] = type(kind, (), {})
        return cls._cache[kind]


def _truth(cond):
    if isinstance(cond, z3.ExprRef):
        return bool(SymBool(cond))
    return bool(cond)


def _num(v):
    if isinstance(v, z3.ExprRef):
        return SymNum(v, 'float')
    return v


def _real_quantity(o):
    return type(o).__module__ == "gearpy.units.units"


def lift_real(o):
    """a real gearpy quantity (module constant such as NULL_TORQUE) as a SymQ with exact value"""
    K = type(o).__name__
    v = o.value if sym.is_sym(o.value) else sym.to_frac(o.value)
    return SymQ(K, _num(L.mul(v, fac(K, o.unit))), o.unit)


def _operand(o):
    if isinstance(o, SymQ):
        return o._tup()
    if isinstance(o, SymNum):
        return ("n", o, o.pytype)
    if isinstance(o, bool):
        return ("n", int(o), "int")
    if is_number(o):
        return ("n", o, "int" if isinstance(o, int) else "float")
    if _real_quantity(o):
        return lift_real(o)._tup()
    return None


class KindFactory:
    """Stands for a unit class (e.g. `Torque`) in the globals of a module under verification."""

    def __init__(self, kind):
        self.kind = kind
        self.__name__ = kind

    def __call__(self, value=None, unit=None):
        return SymQ.make(self.kind, value, unit)

    def __or__(self, other):
        return _Union([self]) | other

    def __ror__(self, other):
        return _Union([other]) | self

    def __repr__(self):
        return f"<kind {self.kind}>"


class _Union:
    def __init__(self, members):
        self.__args__ = tuple(members)

    def __or__(self, other):
        more = other.__args__ if isinstance(other, _Union) else (getattr(other, "__args__", None) or (other,))
        return _Union(self.__args__ + tuple(more))

    def __ror__(self, other):
        more = getattr(other, "__args__", None) or (other,)
        return _Union(tuple(more) + self.__args__)


def _isinstance_hook(obj, cls):
    if isinstance(obj, SymQ):
        for t in _unpack(cls):
            name = t.kind if isinstance(t, KindFactory) else getattr(t, "__name__", None)
            if name == "UnitBase" or name == "object":
                return True
            if name in spec.BASE_KIND:
                if obj.kind == name or (spec.BASE_KIND[obj.kind] == name):
                    return True
        return False
    if any(isinstance(t, KindFactory) for t in _unpack(cls)):
        if _real_quantity(obj):
            names = [t.kind if isinstance(t, KindFactory) else getattr(t, "__name__", "") for t in _unpack(cls)]
            K = type(obj).__name__
            return K in names or spec.BASE_KIND.get(K) in names
        rest = tuple(t for t in _unpack(cls) if isinstance(t, type))
        return sym.sym_isinstance(obj, rest) if rest else False
    return None


def _unpack(cls):
    if isinstance(cls, _Union):
        out = []
        for c in cls.__args__:
            out.extend(_unpack(c))
        return out
    return sym._unpack_types(cls)


sym.ISINSTANCE_HOOKS.append(_isinstance_hook)
