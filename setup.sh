#!/bin/bash
# Builds the overlay interpreter /verif/.venv offline (python 3.12 = the repo's interpreter).
set -e
cd "$(dirname "$0")"
if [ -x .venv/bin/python ] && .venv/bin/python -c "import z3, gearpy, jsonschema" 2>/dev/null; then
  echo "overlay venv already usable"; exit 0
fi
rm -rf .venv
/venv/bin/python -m venv .venv
PIP_NO_INDEX=1 .venv/bin/python -m pip install -q --no-index --find-links /opt/veriftools/wheels z3-solver cvc5 jsonschema sympy >/dev/null
SP=$(.venv/bin/python -c "import sysconfig; print(sysconfig.get_paths()['purelib'])")
echo "import site; site.addsitedir('/venv/lib/python3.12/site-packages')" > "$SP/_repo_deps.pth"
.venv/bin/python -c "import z3, gearpy, jsonschema, numpy, scipy, pandas; print('overlay ok', z3.get_version_string(), gearpy.__file__)"
