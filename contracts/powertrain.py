"""contracts.powertrain -- Powertrain.reset (C12 reset/rerun part, C17), Powertrain.snapshot and
gearpy.utils.export.export_time_variables (C18).

Real Powertrain / element objects with recorded histories of concrete length 1..3 whose samples are abstract
quantities.  pandas.DataFrame and scipy.interp1d are replaced by recording stubs (ASSUMED contracts: `.loc[row, col] = v`
adds the column; `DataFrame[col] = list` needs equal lengths; interp1d(x, y)(t) is the linear interpolation of the
points (x, y) at t) -- the selection / conversion logic around them is what is verified here.
"""
from __future__ import annotations

import itertools

import z3

from pycv import absunits as AU
from pycv import harness as H
from pycv import logic as L
from pycv import sym
from pycv.absunits import SymQ
from pycv.explore import Job

from contracts import gears as G
from contracts import motor as CM
from contracts import relations as RL

_PATCHED = [False]
VARS_BASE = ["angular position", "angular speed", "angular acceleration", "torque", "driving torque", "load torque"]
ALL_VARS = VARS_BASE + ["electric current", "pwm", "tangential force", "bending stress", "contact stress"]
KIND_OF = {"angular position": "AngularPosition", "angular speed": "AngularSpeed", "angular acceleration": "AngularAcceleration",
           "torque": "Torque", "driving torque": "Torque", "load torque": "Torque", "electric current": "Current",
           "tangential force": "Force", "bending stress": "Stress", "contact stress": "Stress"}
ATTR_OF = {"angular position": "angular_position", "angular speed": "angular_speed", "angular acceleration": "angular_acceleration",
           "torque": "torque", "driving torque": "driving_torque", "load torque": "load_torque",
           "electric current": "electric_current", "tangential force": "tangential_force", "bending stress": "bending_stress",
           "contact stress": "contact_stress", "pwm": "pwm"}
UNITS_A = dict(angular_position_unit="rad", angular_speed_unit="rad/s", angular_acceleration_unit="rad/s^2", torque_unit="Nm",
               driving_torque_unit="Nm", load_torque_unit="Nm", force_unit="N", stress_unit="MPa", current_unit="A")
UNITS_B = dict(angular_position_unit="deg", angular_speed_unit="rpm", angular_acceleration_unit="rot/s^2", torque_unit="mNm",
               driving_torque_unit="kgfcm", load_torque_unit="kNm", force_unit="kgf", stress_unit="kPa", current_unit="mA")
UNIT_ARG = {"angular position": "angular_position_unit", "angular speed": "angular_speed_unit",
            "angular acceleration": "angular_acceleration_unit", "torque": "torque_unit", "driving torque": "driving_torque_unit",
            "load torque": "load_torque_unit", "electric current": "current_unit", "tangential force": "force_unit",
            "bending stress": "stress_unit", "contact stress": "stress_unit"}


class RecFrame:
    """recording stand-in for pandas.DataFrame"""
    last = None

    def __init__(self, *a, **k):
        self.columns = list(k.get("columns", []) or [])
        self.cells = {}
        self.assigned = {}
        self.loc = _Loc(self)
        self.csv = None
        RecFrame.last = self

    def __setitem__(self, col, values):
        self.assigned[col] = values
        if col not in self.columns:
            self.columns.append(col)

    def astype(self, *a, **k):
        return self

    def fillna(self, *a, **k):
        return self

    def to_string(self, *a, **k):
        return "<frame>"

    def to_csv(self, path, index=True, **options):
        # options that cannot change which rows/columns/values are written are ignored; the others are recorded
        benign = {"encoding": None, "sep": ",", "header": True, "lineterminator": None, "mode": "w"}
        self.csv_options = {k: v for k, v in options.items() if not (k in benign and (benign[k] is None or benign[k] == v))}
        self.csv = (path, index)


class _Loc:
    def __init__(self, fr):
        self.fr = fr

    def __setitem__(self, key, value):
        row, col = key
        self.fr.cells[(row, col)] = value
        if col not in self.fr.columns:
            self.fr.columns.append(col)


class Interp:
    def __init__(self, x=None, y=None, **k):
        self.x, self.y = list(x), list(y)

    def __call__(self, t):
        return G._Take(("interp", self.x, self.y, t))


class _PD:
    DataFrame = RecFrame


def patch_worker():
    if _PATCHED[0]:
        return
    _PATCHED[0] = True
    RL.patch_worker()
    from pycv import patch
    import gearpy.powertrain as PT
    import gearpy.utils.export as EX
    PT.__dict__["pd"] = _PD
    PT.__dict__["interp1d"] = Interp
    PT.__dict__["print"] = lambda *a, **k: None
    EX.__dict__["pd"] = _PD
    EX.__dict__["os"] = _OS()
    patch.PATCH_LOG.extend(H.stub_unit_classes(["gearpy.powertrain", "gearpy.utils.export"]))
    patch.PATCH_LOG.append("gearpy.powertrain / gearpy.utils.export: pandas.DataFrame, scipy interp1d, os replaced by recording stubs (assumed contracts)")


class _OS:
    class path:
        @staticmethod
        def exists(p):
            return True

        @staticmethod
        def dirname(p):
            return "dir"

    @staticmethod
    def makedirs(p):
        pass


def bare_gear(c, cls):
    """a real instance of `cls` built by its REAL constructor from LITERAL data (constant geometry: these obligations are
    about selection, conversion and bookkeeping, not about the gear formulas -- those are contracts/gears.py) with every
    optional datum present, so that it advertises every variable its class can record"""
    C = G.classes()[cls]
    J = H.lit(c, "InertiaMoment", 1, "kgm^2")
    mm, bb, EE = H.lit(c, "Length", 1, "mm"), H.lit(c, "Length", 5, "mm"), H.lit(c, "Stress", 200, "GPa")
    if cls == "Flywheel":
        kw = dict(name="gear", inertia_moment=J)
    elif cls == "SpurGear":
        kw = dict(name="gear", n_teeth=20, inertia_moment=J, module=mm, face_width=bb, elastic_modulus=EE)
    elif cls == "HelicalGear":
        kw = dict(name="gear", n_teeth=20, inertia_moment=J, helix_angle=H.lit(c, "Angle", 20, "deg"), module=mm, face_width=bb, elastic_modulus=EE)
    elif cls == "WormWheel":
        kw = dict(name="gear", n_teeth=20, inertia_moment=J, helix_angle=H.lit(c, "Angle", 10, "deg"), pressure_angle=G.pressure_angle(c, 1),
                  module=mm, face_width=bb)
    else:
        kw = dict(name="gear", n_starts=1, inertia_moment=J, helix_angle=H.lit(c, "Angle", 10, "deg"), pressure_angle=G.pressure_angle(c, 1),
                  reference_diameter=H.lit(c, "Length", 10, "mm"))
    st, r = H.call(C, **kw)
    if st != "ok":
        raise sym.EngineError(f"harness: {cls} with literal data was rejected by its constructor: {r!r}")
    return r


# ---- building a simulated powertrain ------------------------------------------------------------------------------------

def simulated(c, gear_cls, hist, gear_data=None, with_current=True):
    """real Powertrain (motor, one gear of class gear_cls) with `hist` recorded instants of symbolic samples"""
    import gearpy.powertrain as PT
    b = CM.build_motor(c, RL._Quiet(), with_current)
    if b is None:
        return None
    motor = b[0]
    gear = bare_gear(c, gear_cls)
    G._set(motor, "drives", gear)
    st_, pt = H.call(PT.Powertrain, motor)           # the REAL constructor assembles (motor, gear)
    if st_ != "ok":
        raise sym.EngineError(f"harness: Powertrain(motor -> {gear_cls}) was rejected: {pt!r}")
    times = []
    for k in range(hist):
        tq = H.mkq(c, "Time", f"t{k}", unit="sec" if k % 2 == 0 else "ms")
        times.append(tq)
    if not c.concrete:
        for a, b_ in zip(times, times[1:]):
            c.assume(b_.si() > a.si() + 1)          # instants well separated (beyond the comparison tolerance)
    for tq in times:
        pt.update_time(tq)                            # the recorded axis, through the public API
    samples = {}
    for e, tag in ((motor, "m"), (gear, "g")):
        for var in list(e.time_variables.keys()) + (["pwm"] if e is motor else []):
            ser = []
            for k in range(hist):
                if var == "pwm":
                    ser.append(c.real(f"{tag}_pwm{k}"))
                else:
                    ser.append(H.mkq(c, KIND_OF[var], f"{tag}_{var.replace(' ', '_')}{k}", valid=False))
            e.time_variables[var] = ser
            samples[(e.name, var)] = ser
    return pt, motor, gear, times, samples


# ---- C12 (reset/rerun) and C17: Powertrain.reset ------------------------------------------------------------------------------

def job_reset(gear_cls, hist, with_current=True):
    def body(c, O):
        if c.concrete:
            return
        s = simulated(c, gear_cls, hist, with_current=with_current)
        if s is None:
            return
        pt, motor, gear, times, samples = s
        # current attributes = something else (the end of the run)
        pwm_prerun = c.real("pwm_before_first_run")
        used_controller = c.boolean("a_motor_controller_was_used")
        # without a controller the duty cycle is never changed by a run (Pinst frame: control step skipped)
        c.assume(z3.Implies(z3.Not(used_controller.term), sym.term_of(samples[(motor.name, "pwm")][0]) == pwm_prerun.term))
        c.assume(z3.And(sym.term_of(samples[(motor.name, "pwm")][0]) >= -1, sym.term_of(samples[(motor.name, "pwm")][0]) <= 1))
        st, r = H.call(pt.reset)
        if st == "raise":
            O.fail("reset:no-exception-on-a-simulated-powertrain", props=("C12", "C17"), note=repr(r))
            return
        O.cover("returns")
        O.prove("reset:time-axis-empty", pt.time == [], props=("C12", "C17", "C11"))
        O.prove("reset:every-series-of-every-element-empty(keys kept)",
                all(v == [] for e in (motor, gear) for v in e.time_variables.values()) and
                all(k in e.time_variables for e in (motor, gear) for k in [kk for (nm, kk) in samples if nm == e.name]),
                props=("C12", "C17"))
        series = [v for e in (motor, gear) for v in e.time_variables.values()]
        O.prove("reset:every-series-is-its-own-empty-list(no two variables share a list)",
                len({id(v) for v in series}) == len(series) and all(isinstance(v, list) for v in series), props=("C12", "C17"))
        ok = True
        notrestored = []
        for (nm, var), ser in samples.items():
            e = motor if nm == motor.name else gear
            cur = getattr(e, ATTR_OF[var])
            if gear_cls == "WormGear" and var == "tangential force":
                continue      # observation (DESIGN.md): reset does not restore a WormGear's force; it is recomputed before use
            if cur is not ser[0]:
                notrestored.append((nm, var))
        O.prove("reset:every-attribute-restored-to-its-first-recorded-sample", not notrestored, props=("C12", "C17"), note=f"{notrestored}")
        # C12: what a rerun reads before overwriting must be what it was before the first run
        p0 = sym.term_of(samples[(motor.name, "pwm")][0])
        O.prove("rerun:duty-cycle-restored-to-its-value-before-the-first-run",
                L.Via([z3.Implies(z3.Not(used_controller.term), p0 == pwm_prerun.term), sym.term_of(motor.pwm) == p0],
                      sym.term_of(motor.pwm) == pwm_prerun.term), props=("C12",),
                note="reset restores the first RECORDED duty cycle, i.e. the one chosen by the controller at t=0")
    return Job(f"powertrain.reset[{gear_cls},{hist} instants{'' if with_current else ',motor without current data'}]", body, ("C12", "C17", "C11"),
               functions=["gearpy.powertrain.Powertrain.reset"], expect_covers=("returns",),
               meta=dict(family="powertrain-reset", cls=gear_cls, hist=hist))


# ---- C18: snapshot ----------------------------------------------------------------------------------------------------------

def job_snapshot(gear_cls, hist, variables, units, tag, with_current=True):
    def body(c, O):
        if c.concrete:
            return
        s = simulated(c, gear_cls, hist, with_current=with_current)
        if s is None:
            return
        pt, motor, gear, times, samples = s
        target = H.mkq(c, "Time", "t_target", unit="sec")
        c.assume(z3.And(target.si() >= times[0].si() + 1, target.si() <= times[-1].si() - 1) if hist > 1 else target.si() == times[0].si())
        RecFrame.last = None
        st, r = H.call(pt.snapshot, target_time=target, variables=(list(variables) if variables is not None else None),
                       print_data=False, **units)
        if st == "raise":
            O.fail("snapshot:no-exception-inside-the-simulated-interval", props=("C18", "C17"), note=repr(r))
            return
        O.cover("returns")
        fr = r
        req = list(variables) if variables is not None else list(dict.fromkeys(list(motor.time_variables) + list(gear.time_variables)))
        want = {}
        for e in (motor, gear):
            for var in req:
                if var in e.time_variables:
                    col = var if var == "pwm" else f"{var} ({units[UNIT_ARG[var]]})"
                    want[(e.name, col)] = (e, var)
        got = set(fr.cells)
        O.prove("snapshot:cells=exactly-(element,requested-variable-it-records)", got == set(want), props=("C18",),
                note=f"missing {sorted(set(want) - got)}; extra {sorted(got - set(want))}")
        O.prove("snapshot:no-other-columns-when-variables-are-selected",
                set(c_ for _, c_ in got) <= set(c_ for _, c_ in want), props=("C18",),
                note=f"extra columns {sorted(set(c_ for _, c_ in got) - set(c_ for _, c_ in want))}")
        labels = {(v if v == "pwm" else f"{v} ({units[UNIT_ARG[v]]})") for v in req}
        O.prove("snapshot:frame-columns=exactly-the-requested-variables-labelled-with-their-units(including the columns the frame is created with)",
                set(fr.columns) == labels and len(fr.columns) == len(labels), props=("C18",),
                note=f"columns {list(fr.columns)}; expected {sorted(labels)}")
        for key in sorted(got & set(want)):
            e, var = want[key]
            cell = fr.cells[key]
            okshape = isinstance(cell, tuple) and cell[0] == "interp"
            if not okshape:
                O.fail(f"snapshot:cell-is-an-interpolation[{key[1]}]", props=("C18",))
                continue
            _, xs, ys, t = cell
            ser = samples[(e.name, var)]
            goals = [len(xs) == hist, len(ys) == hist]
            if len(xs) == hist and len(ys) == hist:
                for k in range(hist):
                    goals.append(L.eq(xs[k], times[k].si()))                      # abscissae: recorded instants in seconds
                    if var == "pwm":
                        goals.append(ys[k] is ser[k] or L.eq(ys[k], ser[k]))
                    else:
                        u = units[UNIT_ARG[var]]
                        goals.append(L.eq(L.mul(ys[k], AU.fac(KIND_OF[var], u)), ser[k].si()))   # sample converted to the unit
                goals.append(L.eq(t, target.si()))
            O.prove(f"snapshot:cell=interpolation-of-the-recorded-samples-in-the-requested-unit", L.And(*goals), props=("C18",))
    return Job(f"powertrain.snapshot[{gear_cls},{hist} instants,{tag}{'' if with_current else ',motor without current data'}]", body, ("C18", "C17"),
               functions=["gearpy.powertrain.Powertrain.snapshot"], expect_covers=("returns",),
               meta=dict(family="snapshot", cls=gear_cls, hist=hist, variables=list(variables) if variables else None,
                         thorough_only=tag.startswith("subset#")))


def job_export(gear_cls, hist, units, time_unit, with_current=True):
    def body(c, O):
        if c.concrete:
            return
        import gearpy.utils.export as EX
        s = simulated(c, gear_cls, hist, with_current=with_current)
        if s is None:
            return
        pt, motor, gear, times, samples = s
        for e in (motor, gear):
            RecFrame.last = None
            st, r = H.call(EX.export_time_variables, rotating_object=e, file_path="out/x", time_array=times, time_unit=time_unit, **units)
            if st == "raise":
                O.fail("export:no-exception", props=("C18", "C17"), note=repr(r))
                return
            O.cover("returns")
            fr = RecFrame.last
            cols = fr.assigned
            want_cols = [f"time ({time_unit})"] + [(v if v == "pwm" else f"{v} ({units[UNIT_ARG[v]]})") for v in e.time_variables]
            O.prove("export:one-column-per-recorded-variable-plus-time", list(cols) == want_cols, props=("C18",), note=f"{list(cols)}")
            goals = [all(len(v) == hist for v in cols.values())]
            tc = cols.get(f"time ({time_unit})", [])
            for k in range(min(hist, len(tc))):
                goals.append(L.eq(L.mul(tc[k], AU.fac("Time", time_unit)), times[k].si()))
            for v in e.time_variables:
                col = v if v == "pwm" else f"{v} ({units[UNIT_ARG[v]]})"
                ser = samples[(e.name, v)]
                got = cols.get(col, [])
                for k in range(min(hist, len(got))):
                    if v == "pwm":
                        goals.append(got[k] is ser[k])
                    else:
                        goals.append(L.eq(L.mul(got[k], AU.fac(KIND_OF[v], units[UNIT_ARG[v]])), ser[k].si()))
            O.prove("export:one-row-per-instant;every-sample-converted-to-the-requested-unit", L.And(*goals), props=("C18",))
            O.prove("export:written-as-csv-without-index", fr.csv == ("out/x.csv", False) and not getattr(fr, "csv_options", None), props=("C18",),
                    note=f"to_csv options that affect what is written: {getattr(fr, 'csv_options', None)}")
    return Job(f"powertrain.export[{gear_cls},{hist} instants,time in {time_unit}{'' if with_current else ',motor without current data'}]", body, ("C18", "C17"),
               functions=["gearpy.utils.export.export_time_variables"], expect_covers=("returns",),
               meta=dict(family="export", cls=gear_cls, hist=hist))


def job_export_wrapper(gear_cls):
    """Powertrain.export_time_variables: the wrapper hands every element, the powertrain's own time axis and EACH unit argument
    under its own keyword to gearpy.utils.export_time_variables (whose contract is proved by the export jobs above)."""
    def body(c, O):
        if c.concrete:
            return
        import gearpy.powertrain as PT
        s = simulated(c, gear_cls, 2)
        if s is None:
            return
        pt, motor, gear, times, samples = s
        calls = []
        real = PT.__dict__["export_time_variables"]
        PT.__dict__["export_time_variables"] = lambda *a, **k: calls.append((a, k))
        try:
            # eleven pairwise different argument values: a swapped or dropped keyword cannot go unnoticed
            args = dict(time_unit="U-time", angular_position_unit="U-pos", angular_speed_unit="U-spd", angular_acceleration_unit="U-acc",
                        torque_unit="U-trq", driving_torque_unit="U-drv", load_torque_unit="U-load", force_unit="U-force",
                        stress_unit="U-stress", current_unit="U-cur")
            st, r = H.call(pt.export_time_variables, folder_path="some/folder", **args)
            O.prove("export-wrapper:no-exception", st == "ok", props=("C18",), note=repr(r))
            O.prove("export-wrapper:one-call-per-element-in-chain-order",
                    len(calls) == len(pt.elements) and all(not a and k.get("rotating_object") is e for (a, k), e in zip(calls, pt.elements)),
                    props=("C18", "C17"))
            import os as _os
            O.prove("export-wrapper:file-named-after-the-element-inside-the-folder",
                    all(k.get("file_path") == _os.path.join("some/folder", e.name) for (a, k), e in zip(calls, pt.elements)), props=("C18",))
            O.prove("export-wrapper:time-axis-is-the-powertrain's-own-recorded-axis", all(k.get("time_array") is pt.time or k.get("time_array") == pt.time for a, k in calls),
                    props=("C18", "C11"))
            O.prove("export-wrapper:every-unit-argument-reaches-the-keyword-of-the-same-name(no other keywords)",
                    all({kk: v for kk, v in k.items() if kk not in ("rotating_object", "file_path", "time_array")} == args for a, k in calls),
                    props=("C18",), note=str([{kk: v for kk, v in k.items() if kk.endswith("_unit") and args.get(kk) != v} for a, k in calls][:1]))
            for name in args:
                calls.clear()
                st, r = H.call(pt.export_time_variables, folder_path="some/folder", **dict(args, **{name: 5}))
                O.prove(f"export-wrapper:non-string-{name}=>TypeError-and-nothing-exported", st == "raise" and isinstance(r, TypeError) and not calls, props=("C18",))
            calls.clear()
            st, r = H.call(pt.export_time_variables, folder_path="", **args)
            O.prove("export-wrapper:empty-folder=>ValueError-and-nothing-exported", st == "raise" and isinstance(r, ValueError) and not calls, props=("C18",))
            O.cover("done")
        finally:
            PT.__dict__["export_time_variables"] = real
    return Job(f"powertrain.export-wrapper[{gear_cls}]", body, ("C18", "C17", "C11"), functions=["gearpy.powertrain.Powertrain.export_time_variables"],
               expect_covers=("done",), meta=dict(family="export", cls=gear_cls, hist=2))


def job_update_time():
    """Powertrain.update_time: the interface contract the solver proofs use (Iface.update_time)"""
    def body(c, O):
        if c.concrete:
            return
        s = simulated(c, "SpurGear", 2)
        if s is None:
            return
        pt, motor, gear, times, samples = s
        before = list(pt.time)
        t = H.mkq(c, "Time", "t_new")
        st, r = H.call(pt.update_time, t)
        O.prove("update_time:appends-exactly-the-given-instant", st == "ok" and pt.time[:-1] == before and pt.time[-1] is t and len(pt.time) == 3,
                props=("C11", "C17"))
        dtq = H.mkq(c, "TimeInterval", "dt_new")
        st, r = H.call(pt.update_time, dtq)
        O.prove("update_time:a-TimeInterval-is-a-Time(accepted)", st == "ok" and pt.time[-1] is dtq, props=("C11",))
        bad = H.mkq(c, "Torque", "not_a_time", valid=False)
        n0 = len(pt.time)
        st, r = H.call(pt.update_time, bad)
        O.prove("update_time:rejects-a-non-Time-and-leaves-the-axis", st == "raise" and isinstance(r, TypeError) and len(pt.time) == n0, props=("C11", "C17"))
        stt, e = H.call(setattr, pt, "time", [])
        O.prove("time:no-setter", stt == "raise", props=("C11", "C20"))
        O.cover("done")
    return Job("powertrain.update_time", body, ("C11", "C17", "C20"), functions=["gearpy.powertrain.Powertrain.update_time", "gearpy.powertrain.Powertrain.time"],
               expect_covers=("done",), meta=dict(family="powertrain-misc"))


def job_solver_init():
    """Solver.__init__: accepts an assembled powertrain, starts unlocked"""
    def body(c, O):
        if c.concrete:
            return
        import gearpy.solver as S
        s = simulated(c, "SpurGear", 1)
        if s is None:
            return
        pt = s[0]
        p0 = sym.term_of(s[4][(s[1].name, "pwm")][0])
        c.assume(z3.And(p0 >= -1, p0 <= 1))                   # a recorded duty cycle (class invariant of DCMotor.pwm)
        st, r = H.call(S.Solver, pt)
        O.prove("Solver.__init__:accepts-a-powertrain-and-starts-unlocked",
                st == "ok" and any(v is pt for v in r.__dict__.values()) and any(v is False for v in r.__dict__.values()) and
                not any(v is True for v in r.__dict__.values()), props=("C12", "C13"))
        if st == "ok":
            # OWNERSHIP (what makes the abstract powertrain of the solver proofs legitimate: there the solver reads the time axis and the
            # recorded series THROUGH the powertrain at every use).  A solver may keep a reference to a container of the powertrain
            # only if that reference stays the container the powertrain exposes -- in particular across Powertrain.reset(), after which
            # "the same solver object or a new one" must behave alike (C12).
            solver = r

            def exposed():
                cur = [pt.time]
                for e in pt.elements:
                    cur.append(e.time_variables)
                    cur.extend(e.time_variables.values())
                return cur
            held = [v for v in solver.__dict__.values() if isinstance(v, (list, dict, set))]
            O.prove("Solver.__init__:every-container-it-keeps-is-one-the-powertrain-exposes", all(any(v is x for x in exposed()) for v in held),
                    props=("C12",), note=f"{len(held)} container(s) kept")
            st2, r2 = H.call(pt.reset)
            O.prove("Solver:after-Powertrain.reset-every-container-it-keeps-is-still-the-one-the-powertrain-exposes(same solver = new solver)",
                    st2 == "ok" and all(any(v is x for x in exposed()) for v in held), props=("C12",),
                    note="a stale alias of the time axis or of a series makes a rerun on the same solver differ from a rerun on a new one")
        st, r = H.call(S.Solver, object())
        O.prove("Solver.__init__:rejects-a-non-powertrain", st == "raise" and isinstance(r, TypeError), props=("C12",))
        O.cover("done")
    return Job("solver.__init__", body, ("C12", "C13"), functions=["gearpy.solver.Solver.__init__"], expect_covers=("done",),
               meta=dict(family="powertrain-misc"))


def subsets_quick():
    out = [("all(default)", None)]
    for v in ALL_VARS:
        out.append((f"only-{v}", (v,)))
    out.append(("stresses-without-force", ("bending stress", "contact stress")))
    out.append(("speed+bending", ("angular speed", "bending stress")))
    out.append(("current+contact", ("electric current", "contact stress")))
    return out


def all_jobs(exact_tables=None):
    jobs = [job_update_time(), job_solver_init()]
    for cls in ("SpurGear", "HelicalGear", "WormWheel", "WormGear", "Flywheel"):
        for hist in (1, 2, 3):
            jobs.append(job_reset(cls, hist))
        jobs.append(job_reset(cls, 2, with_current=False))
    for cls in ("SpurGear", "HelicalGear", "WormWheel", "WormGear", "Flywheel"):
        for tag, vs in subsets_quick():
            if vs is not None:
                have = set(VARS_BASE) | {"electric current", "pwm"} | \
                    ({"tangential force"} if cls != "Flywheel" else set()) | \
                    ({"bending stress"} if cls in ("SpurGear", "HelicalGear", "WormWheel") else set()) | \
                    ({"contact stress"} if cls in ("SpurGear", "HelicalGear") else set())
                if not set(vs) <= have:
                    continue
            jobs.append(job_snapshot(cls, 2, vs, UNITS_A, tag))
        # thorough tier: EVERY non-empty subset of the variables this pair of elements records (the property's 2^11)
        have = [v for v in ALL_VARS if v in (set(VARS_BASE) | {"electric current", "pwm"} |
                                             ({"tangential force"} if cls != "Flywheel" else set()) |
                                             ({"bending stress"} if cls in ("SpurGear", "HelicalGear", "WormWheel") else set()) |
                                             ({"contact stress"} if cls in ("SpurGear", "HelicalGear") else set()))]
        for mask in range(1, 2 ** len(have)):
            vs = tuple(v for k, v in enumerate(have) if mask >> k & 1)
            if len(vs) in (1, len(have)):
                continue
            jobs.append(job_snapshot(cls, 2, vs, UNITS_A, f"subset#{mask}"))
        jobs.append(job_snapshot(cls, 3, None, UNITS_B, "all(default),other-units"))
        jobs.append(job_snapshot(cls, 1, None, UNITS_A, "all(default),single-instant"))
        jobs.append(job_export(cls, 2, UNITS_A, "sec"))
        jobs.append(job_export(cls, 3, UNITS_B, "ms"))
        jobs.append(job_snapshot(cls, 2, None, UNITS_B, "all(default),other-units", with_current=False))
        jobs.append(job_export(cls, 2, UNITS_B, "ms", with_current=False))
        jobs.append(job_export_wrapper(cls))
    return jobs
