"""contracts.solver -- L2: every method of gearpy.solver.Solver over the abstract powertrain.

Each method has a Contract (requires / frame / ensures, stated over SI magnitudes of the model fields); loops are
cut by the invariants registered below (pycv.loops).  A method is verified by running its REAL body once per path
over the abstract powertrain (chains of any length n >= 2); its callees inside gearpy.solver are replaced by their
contract stubs (prove pre, havoc frame, assume post) when the contract says so.

Properties: C01 (coupling), C02 (torques), C03 (motion), C13 (self-locking), C14 (control step), C16 (stop),
C17 (one sample per instant), C11/C12 (time axis, continuation) -- see DESIGN.md section 7.
"""
from __future__ import annotations

import z3

from pycv import absmodel as AM
from pycv import absunits as AU
from pycv import harness as H
from pycv import logic as L
from pycv import loops
from pycv import sym
from pycv.absunits import SymQ, SymUnit
from pycv.explore import Job
from pycv.sym import EngineError
from pycv.sym import SymBool, SymNum

from contracts import motor as CM

MOD = "gearpy.solver"
ALLP = ("C01", "C02", "C03", "C11", "C12", "C13", "C14", "C16", "C17")
Q = "gearpy.solver.Solver"
Sel = z3.Select


def SolverCls():
    import gearpy.solver as S
    return S.Solver


_PATCHED = [False]


def patch_worker():
    if _PATCHED[0]:
        return
    _PATCHED[0] = True
    import gearpy.solver as S
    from pycv import patch
    S.__dict__["len"] = AM.sym_len
    S.__dict__["range"] = AM.sym_range
    S.__dict__["hasattr"] = AM.sym_hasattr
    S.__dict__["reversed"] = AM.sym_reversed
    S.__dict__["enumerate"] = AM.sym_enumerate
    S.__dict__["zip"] = AM.sym_zip
    S.__dict__["tuple"] = AM.sym_tuple
    S.__dict__["list"] = AM.sym_list
    S.__dict__["any"] = sym_any
    S.__dict__["all"] = sym_all
    S.__dict__["round"] = sym_round
    if "ceil" in S.__dict__:
        S.__dict__["ceil"] = sym_ceil
    from pycv.patch import _MathProxy
    import numpy
    S.__dict__["np"] = _MathProxy(numpy, {"arange": np_arange, "sqrt": sym.sym_sqrt})
    patch.PATCH_LOG.extend(H.stub_unit_classes([MOD]))
    patch.PATCH_LOG.append(f"{MOD}: len/range/hasattr/any/all shadowed for symbolic-length sequences")
    import types
    # every method of Solver that contains a loop or a comprehension (helpers a refactoring may have added included)
    for name, fn in list(S.Solver.__dict__.items()):
        if not isinstance(fn, types.FunctionType):
            continue
        import ast as _ast, inspect as _inspect, textwrap as _tw
        try:
            tree = _ast.parse(_tw.dedent(_inspect.getsource(fn)))
        except (OSError, SyntaxError):
            continue
        if not any(isinstance(n, (_ast.For, _ast.ListComp, _ast.SetComp, _ast.GeneratorExp)) for n in _ast.walk(tree)):
            continue
        info = loops.rewrite_method(S.Solver, name)
        patch.PATCH_LOG.append(f"{Q}.{name}: loop headers rewritten to vcloop_/vccomp_ {info['headers']}")


def sym_any(x):
    if isinstance(x, loops.CompResult):
        return _quant_comp(x, exists=True)
    import builtins
    return builtins.any(x)


def sym_all(x):
    if isinstance(x, loops.CompResult):
        return _quant_comp(x, exists=False)
    import builtins
    return builtins.all(x)


def _quant_comp(cr, exists):
    """any/all over a comprehension on a symbolic-length sequence -> a fresh Bool b with
    b <=> exists/forall element: cond(e) and elem(e)   (witness skolemised, universal part as hypothesis)"""
    c = sym.ctx()
    it = cr.seq.vc_iter()

    def pred(k):
        # the real filter and element expressions, evaluated on an arbitrary element and summarised into a term
        e = it.value_at(k)

        def both():
            if not cr.cond_fn(e):
                return not exists            # filtered out: neutral element of any/all
            return bool(cr.elem_fn(e))
        return c.summarize(both)
    b = c.boolean(c.fresh_name(f"q[{cr.cid}]"), is_input=False)
    w = z3.Int(c.fresh_name("w"))
    if exists:
        c.assume(z3.Implies(b.term, z3.And(it.in_range(w), pred(w))))
        c.assume_goal(L.Forall(it.lo, it.hi, lambda j: z3.Implies(z3.Not(b.term), z3.Not(pred(j))), name="jq"))
    else:
        c.assume(z3.Implies(z3.Not(b.term), z3.And(it.in_range(w), z3.Not(pred(w)))))
        c.assume_goal(L.Forall(it.lo, it.hi, lambda j: z3.Implies(b.term, pred(j)), name="jq"))
    return b


# =====================================================================================================
# interface stubs of the element classes (contracts of the abstract element interface; the six
# concrete classes are proved to conform in contracts/elements.py)
# =====================================================================================================

class Iface:
    def __init__(self, env):
        self.env = env
        # derived-quantity spec functions (what they are is C09's business at L1)
        self.g_force = z3.Function("g_force", AM.I, AM.R, AM.R, AM.R)
        self.g_bend = z3.Function("g_bend", AM.I, AM.R, AM.R)
        self.g_contact = z3.Function("g_contact", AM.I, AM.R, AM.R)
        self.g_unit = z3.Function("g_unit", AM.I, AM.I, AM.I)

    # --- DCMotor.compute_torque (contract proved in contracts/motor.py) ---------------------------------
    def compute_torque(self, e):
        env, c = self.env, sym.ctx()
        st = env.state
        c.prove_in_path("pre[DCMotor.compute_torque]:element-is-the-motor-with-speed-set",
                        z3.And(e._cls() == 0, z3.Not(Sel(st["spd_none"], e._i))))
        c.prove_in_path("pre[DCMotor.compute_torque]:duty-cycle-in-[-1,1]", z3.And(st["pwm"] >= -1, st["pwm"] <= 1))
        val = motor_law(env, st["pwm"], env.si("spd", e._i))
        u = SymUnit("Torque", idx=env.motor["Tm"].unit.idx)
        env.store_quantity("Td", e._i, SymQ("Torque", SymNum(val, "float"), u))
        env.log.append(("compute_torque",))

    def compute_electric_current(self, e):
        env, c = self.env, sym.ctx()
        st = env.state
        c.prove_in_path("pre[DCMotor.compute_electric_current]:computable-and-driving-torque-set",
                        z3.And(e._cls() == 0, st["ecc"], z3.Not(Sel(st["Td_none"], e._i))))
        val = motor_current(env, st["pwm"], env.si("Td", e._i))
        uidx = env.motor["im"].unit.idx
        st["cur_val"] = val
        st["cur_unit"] = uidx
        st["cur_none"] = z3.BoolVal(False)
        env.log.append(("compute_electric_current",))

    def compute_tangential_force(self, e):
        env, c = self.env, sym.ctx()
        st, i = env.state, e._i
        c.prove_in_path("pre[compute_tangential_force]:gear-with-force-computable-and-torques-set",
                        z3.And(e._in(AM.HAS_FORCE), Sel(st["tfc"], i), z3.Not(Sel(st["Td_none"], i)),
                               z3.Not(Sel(st["Tl_none"], i))))
        u = SymUnit("Force", idx=self.g_unit(i, z3.IntVal(1)))
        c.assume(u.factor() > 0)
        si = self.g_force(i, env.si("Td", i), env.si("Tl", i))
        env.store_quantity("force", i, SymQ("Force", SymNum(si, "float"), u))

    def compute_bending_stress(self, e):
        env, c = self.env, sym.ctx()
        st, i = env.state, e._i
        c.prove_in_path("pre[compute_bending_stress]:computable-and-force-set",
                        z3.And(e._in(AM.HAS_STRESS), Sel(st["bsc"], i), z3.Not(Sel(st["force_none"], i))))
        u = SymUnit("Stress", idx=self.g_unit(i, z3.IntVal(2)))
        c.assume(u.factor() > 0)
        si = self.g_bend(i, env.si("force", i))
        env.store_quantity("bend", i, SymQ("Stress", SymNum(si, "float"), u))

    def compute_contact_stress(self, e):
        env, c = self.env, sym.ctx()
        st, i = env.state, e._i
        c.prove_in_path("pre[compute_contact_stress]:computable-and-force-set",
                        z3.And(e._in(AM.HAS_STRESS), Sel(st["csc"], i), z3.Not(Sel(st["force_none"], i))))
        u = SymUnit("Stress", idx=self.g_unit(i, z3.IntVal(3)))
        c.assume(u.factor() > 0)
        si = self.g_contact(i, env.si("force", i))
        env.store_quantity("contact", i, SymQ("Stress", SymNum(si, "float"), u))

    # --- update_time_variables: one sample appended per variable the element records -----------------
    def update_time_variables(self, e):
        env = self.env
        st, i = env.state, e._i
        for f in ("pos", "spd", "acc", "T", "Td", "Tl", "force", "bend", "contact"):
            if f in AM.FLAG_OF:
                cond = z3.And(e._in(AM.HAS_FORCE if f == "force" else AM.HAS_STRESS), Sel(st[AM.FLAG_OF[f]], i))
            else:
                cond = z3.BoolVal(True)
            st[f"hlen_{f}"] = z3.Store(st[f"hlen_{f}"], i, z3.If(cond, Sel(st[f"hlen_{f}"], i) + 1, Sel(st[f"hlen_{f}"], i)))
            for suf in ("val", "unit", "none"):
                st[f"last_{f}_{suf}"] = z3.Store(st[f"last_{f}_{suf}"], i,
                                                 z3.If(cond, Sel(st[f"{f}_{suf}"], i), Sel(st[f"last_{f}_{suf}"], i)))
        ismotor = e._cls() == 0
        st["hlen_cur"] = z3.If(z3.And(ismotor, st["ecc"]), st["hlen_cur"] + 1, st["hlen_cur"])
        for suf in ("val", "unit", "none"):
            st[f"last_cur_{suf}"] = z3.If(z3.And(ismotor, st["ecc"]), st[f"cur_{suf}"], st[f"last_cur_{suf}"])
        st["hlen_pwm"] = z3.If(ismotor, z3.If(st["pwm_key"], st["hlen_pwm"] + 1, z3.IntVal(1)), st["hlen_pwm"])
        st["pwm_key"] = z3.Or(st["pwm_key"], ismotor)
        st["last_pwm"] = z3.If(ismotor, st["pwm"], st["last_pwm"])
        env.log.append(("update_time_variables", i))

    # --- Powertrain.update_time -----------------------------------------------------------------------
    def update_time(self, instant):
        env = self.env
        st = env.state
        if not (isinstance(instant, SymQ) and AU.spec.BASE_KIND[instant.kind] == "Time"):
            raise TypeError("Parameter 'instant' must be an instance of 'Time'.")
        st["tlen"] = st["tlen"] + 1
        st["tlast_val"] = sym.term_of(instant.si())
        st["tlast_unit"] = AM.unit_idx("Time", instant.unit)
        env.log.append(("update_time", sym.term_of(instant.si())))


def motor_law(env, D, w):
    m = env.motor
    W0, TM, I0, IM = (sym.term_of(L.num(m[k].si())) for k in ("w0", "Tm", "i0", "im"))
    with_c = CM.cases_term(CM.spec_torque(D, w, W0, TM, I0, IM))
    without = CM.cases_term(CM.spec_torque(D, w, W0, TM))
    return z3.If(env.state["ecc"], with_c, without)


def motor_current(env, D, T):
    m = env.motor
    TM, I0, IM = (sym.term_of(L.num(m[k].si())) for k in ("Tm", "i0", "im"))
    return CM.cases_term(CM.spec_current(D, T, TM, I0, IM))


def make_env(c, wellformed=True):
    env = AM.Env(c)
    env.iface = Iface(env)
    # motor constants: valid by the DCMotor constructor's contract (C19 clause proved in contracts/motor.py)
    m = {}
    for k, kind in (("w0", "AngularSpeed"), ("Tm", "Torque"), ("i0", "Current"), ("im", "Current")):
        m[k] = H.mkq(c, kind, f"motor_{k}")
    c.assume(z3.And(L._b(L.gt(m["w0"].si(), 0)), L._b(L.gt(m["Tm"].si(), 0)), L._b(L.ge(m["i0"].si(), 0)),
                    L._b(L.gt(m["im"].si(), 0)), L._b(L.lt(m["i0"].si(), m["im"].si()))))
    env.motor = m
    if wellformed:
        env.assume_wellformed()
    st = env.state
    c.assume(z3.And(st["tlen"] >= 0, st["hlen_cur"] >= 0, st["hlen_pwm"] >= 0))
    c.assume(env.fac("InertiaMoment", st["Jeq_unit"]) > 0)
    c.assume(env.fac("Time", st["tlast_unit"]) > 0)
    c.assume(env.fac("Current", st["cur_unit"]) > 0)
    # the stand-in solver is built by the REAL constructor (so that whatever it initialises exists); its two state
    # attributes are then set to the arbitrary pre-state the method contracts quantify over
    pt = AM.AbsPowertrain(env)
    solver = None
    if wellformed:
        st_, r_ = H.call(SolverCls(), pt)
        if st_ == "ok":
            solver = r_
        else:
            raise sym.PathEnd()         # the constructor rejects only malformed powertrains (Solver.__init__ job)
    if solver is None:
        solver = object.__new__(SolverCls())
        solver._Solver__powertrain = pt
    sync_to_solver(env, solver)
    env.solver = solver
    return env, solver


def _renamed(e):
    return EngineError("the Solver's private state (lock flag, equivalent inertia, powertrain reference) is bound to the abstract state by "
                       f"attribute name in contracts/solver.py; the binding no longer matches the class: {e}")


def sync_to_solver(env, solver):
    st = env.state
    missing = [a for a in ("_Solver__powertrain", "_Solver__powertrain_is_locked") if a not in solver.__dict__]
    if missing:
        raise _renamed(f"no attribute {missing}")
    solver._Solver__powertrain_is_locked = SymBool(st["locked"])
    solver._Solver__powertrain_inertia_moment = SymQ("InertiaMoment", SymNum(st["Jeq_val"], "float"),
                                                     SymUnit("InertiaMoment", idx=st["Jeq_unit"]))


def sync_from_solver(env, solver):
    st = env.state
    try:
        lk = solver._Solver__powertrain_is_locked
    except AttributeError as e:
        raise _renamed(e) from e
    st["locked"] = lk.term if isinstance(lk, SymBool) else z3.BoolVal(bool(lk))
    q = solver._Solver__powertrain_inertia_moment
    if isinstance(q, SymQ):
        st["Jeq_val"] = sym.term_of(q.si())
        st["Jeq_unit"] = AM.unit_idx("InertiaMoment", q.unit)


# =====================================================================================================
# contracts
# =====================================================================================================

class Contract:
    name = ""
    frame = ()
    props = ()

    def pre(self, env):
        return []

    def post(self, env, old):
        return []

    def args(self, env, c):
        return {}


def coupling(env, f, j, state=None):
    """SI(x[j]) = ratio[j+1] * SI(x[j+1]) and x[j] is set"""
    st = state or env.state
    return z3.And(z3.Not(Sel(st[f"{f}_none"], j)),
                  env.fac(AM._kind_of_field(f), Sel(st[f"{f}_unit"], j)) > 0,
                  env.si(f, j, st) == Sel(st["ratio"], j + 1) * env.si(f, j + 1, st))


def is_set(env, f, j, state=None):
    st = state or env.state
    return z3.And(z3.Not(Sel(st[f"{f}_none"], j)), env.fac(AM._kind_of_field(f), Sel(st[f"{f}_unit"], j)) > 0)


def same_at(env, f, j, old):
    st = env.state
    return z3.And(*[Sel(st[nm], j) == Sel(old[nm], j) for nm in st.expand(f)])


def frame_ok(env, old, frame):
    """every model field outside `frame` is the identical term as before"""
    changed = env.state.changed_since(old)
    outside = [f for f in changed if f not in frame]
    return outside


# ---- C01: position and speed ---------------------------------------------------------------------------

class PosSpd(Contract):
    name = "_compute_angular_position_and_speed"
    frame = ("pos", "spd")
    props = ("C01", "C03", "C13")

    def pre(self, env):
        return [is_set(env, "pos", env.n - 1), is_set(env, "spd", env.n - 1)]

    def post(self, env, old):
        n = env.n
        return [L.Forall(0, n - 1, lambda j: z3.And(coupling(env, "pos", j), coupling(env, "spd", j)), name="jp"),
                same_at(env, "pos", n - 1, old), same_at(env, "spd", n - 1, old),
                is_set(env, "pos", n - 1), is_set(env, "spd", n - 1)]


@loops.loop_spec(f"{Q}._compute_angular_position_and_speed#0", frame=("pos", "spd"))
def inv_posspd(env, i, entry):
    n = env.n
    old = env.ghost["old"]
    return [L.Forall(i + 1, n - 1, lambda j: z3.And(coupling(env, "pos", j), coupling(env, "spd", j)), name="jp"),
            same_at(env, "pos", n - 1, old), same_at(env, "spd", n - 1, old),
            is_set(env, "pos", n - 1), is_set(env, "spd", n - 1)]


# ---- C01/C03: acceleration ------------------------------------------------------------------------------

class Acc(Contract):
    name = "_compute_angular_acceleration"
    frame = ("acc",)
    props = ("C01", "C03")

    def pre(self, env):
        # the solver's equivalent inertia is the documented reduction (established by _compute_powertrain_inertia)
        return [is_set(env, "T", env.n - 1), env.Jeq_si() > 0, env.Jeq_si() == Jred(env)(env.n - 1)]

    def post(self, env, old):
        n = env.n
        return [is_set(env, "acc", n - 1), env.si("acc", n - 1) * Jred(env)(n - 1) == env.si("T", n - 1),
                L.Forall(0, n - 1, lambda j: coupling(env, "acc", j), name="ja")]


@loops.loop_spec(f"{Q}._compute_angular_acceleration#0", frame=("acc",))
def inv_acc(env, i, entry):
    n = env.n
    return [is_set(env, "acc", n - 1), env.si("acc", n - 1) * Jred(env)(n - 1) == env.si("T", n - 1),
            L.Forall(i + 1, n - 1, lambda j: coupling(env, "acc", j), name="ja")]


# ---- C13/C01: locked clamp ---------------------------------------------------------------------------------

class Locked(Contract):
    name = "_compute_locked_powertrain_angular_speed_and_acceleration"
    frame = ("spd", "acc")
    props = ("C13", "C01")

    def post(self, env, old):
        return [L.Forall(0, env.n, lambda j: z3.And(is_set(env, "spd", j), is_set(env, "acc", j),
                                                    env.si("spd", j) == 0, env.si("acc", j) == 0), name="jl")]


def done_todo(env, k):
    """index ranges (processed, still to do) of a POINTWISE loop over the chain at loop position k, for either iteration
    direction (each iteration handles one element independently of the others, so the order is free)"""
    it = env.ghost.get("loop_iter")
    if it is not None and it.step == -1:
        return (k + 1, it.hi), (it.lo, k + 1)
    lo = it.lo if it is not None else 0
    hi = it.hi if it is not None else env.n
    return (lo, k), (k, hi)


@loops.loop_spec(f"{Q}._compute_locked_powertrain_angular_speed_and_acceleration#0", frame=("spd", "acc"))
def inv_locked(env, k, entry):
    (a, b), _ = done_todo(env, k)
    return [L.Forall(a, b, lambda j: z3.And(is_set(env, "spd", j), is_set(env, "acc", j),
                                            env.si("spd", j) == 0, env.si("acc", j) == 0), name="jl")]


# ---- C02: driving torque -----------------------------------------------------------------------------------

class Drive(Contract):
    name = "_compute_driving_torque"
    frame = ("Td",)
    props = ("C02", "C14")

    def pre(self, env):
        st = env.state
        return [is_set(env, "spd", 0), st["pwm"] >= -1, st["pwm"] <= 1]

    def post(self, env, old):
        n = env.n
        return [is_set(env, "Td", 0), env.si("Td", 0) == motor_law(env, env.state["pwm"], env.si("spd", 0)),
                L.Forall(1, n, lambda j: z3.And(is_set(env, "Td", j), env.si("Td", j) == env.si("Td", j - 1) *
                                                Sel(env.state["eff"], j) * Sel(env.state["ratio"], j)), name="jd")]


@loops.loop_spec(f"{Q}._compute_driving_torque#0", frame=("Td",))
def inv_drive(env, i, entry):
    return [is_set(env, "Td", 0), env.si("Td", 0) == motor_law(env, env.state["pwm"], env.si("spd", 0)),
            L.Forall(1, i, lambda j: z3.And(is_set(env, "Td", j), env.si("Td", j) == env.si("Td", j - 1) *
                                            Sel(env.state["eff"], j) * Sel(env.state["ratio"], j)), name="jd")]


# ---- C02: load torque ------------------------------------------------------------------------------------------

def extp(env, j):
    """element j carries an external load function"""
    st = env.state
    c = Sel(st["cls"], j)
    return z3.And(z3.Or(*[c == k for k in sorted(AM.HAS_EXTERNAL_TORQUE)]), Sel(st["ext"], j))


def ext_value(env, j):
    return env.ext_fn(j, env.tlast_si(), env.si("pos", j), env.si("spd", j))


def ext_returns_torque(env, j):
    return env.ext_ok(j, env.tlast_si(), env.si("pos", j), env.si("spd", j))


def load_rel(env, j, i=None):
    """element j in [1, n): own value is the load function's if it carries one; the upstream element holds the
    propagated value unless it carries a load function itself (i: loop position, the element just propagated to)"""
    st = env.state
    own = z3.Implies(extp(env, j), env.si("Tl", j) == ext_value(env, j))
    up = z3.Implies(z3.Or(j == 1, j == (i + 1 if i is not None else 1), z3.Not(extp(env, j - 1))),
                    z3.And(is_set(env, "Tl", j - 1),
                           env.si("Tl", j - 1) * Sel(st["eff"], j) * Sel(st["ratio"], j) == env.si("Tl", j)))
    return z3.And(is_set(env, "Tl", j), own, up)


class Load(Contract):
    name = "_compute_load_torque"
    frame = ("Tl",)
    props = ("C02",)

    def pre(self, env):
        n, st = env.n, env.state
        return [extp(env, n - 1), st["tlen"] > 0,
                L.Forall(0, n, lambda j: z3.And(is_set(env, "pos", j), is_set(env, "spd", j)), name="jps"),
                L.Forall(1, n, lambda j: Sel(st["eff"], j) > 0, name="je")]

    def post(self, env, old):
        n = env.n
        return [L.Forall(1, n, lambda j: load_rel(env, j), name="jt")]


@loops.loop_spec(f"{Q}._compute_load_torque#0", frame=("Tl",))
def inv_load(env, i, entry):
    n = env.n
    # processed: j in (i, n-1]
    return [L.Forall(i + 1, n, lambda j: load_rel(env, j, i), name="jt")]


# ---- C02: net torque ---------------------------------------------------------------------------------------------

class Net(Contract):
    name = "_compute_torque"
    frame = ("T",)
    props = ("C02",)

    def pre(self, env):
        return [L.Forall(0, env.n, lambda j: z3.And(is_set(env, "Td", j), is_set(env, "Tl", j)), name="jn")]

    def post(self, env, old):
        return [L.Forall(0, env.n, lambda j: z3.And(is_set(env, "T", j),
                                                    env.si("T", j) == env.si("Td", j) - env.si("Tl", j)), name="jn")]


@loops.loop_spec(f"{Q}._compute_torque#0", frame=("T",))
def inv_net(env, k, entry):
    (a, b), _ = done_todo(env, k)
    return [L.Forall(a, b, lambda j: z3.And(is_set(env, "T", j),
                                            env.si("T", j) == env.si("Td", j) - env.si("Tl", j)), name="jn")]


# ---- C03: inertia reduction -----------------------------------------------------------------------------------------

def Jred(env):
    if "Jred" not in env.ghost:
        f = z3.Function("g_Jred", AM.I, AM.R)
        env.ghost["Jred"] = f
        st = env.state
        c = env.c
        # the documented reduction, literally (property C03): start from the motor inertia and, moving downstream,
        # multiply the running total by each element's gear ratio and add that element's inertia
        c.assume(f(0) == env.J_si(0))
        c.assume_goal(L.Forall(1, env.n, lambda k: f(k) == f(k - 1) * Sel(st["ratio"], k) + env.J_si(k), name="kJ"))
        c.assume_goal(L.Forall(0, env.n, lambda k: f(k) > 0, name="kJp"))   # lemma: positive (ratio>0, J>0) -- proved below
    return env.ghost["Jred"]


class Inertia(Contract):
    name = "_compute_powertrain_inertia"
    frame = ("Jeq",)
    props = ("C03",)

    def post(self, env, old):
        return [env.Jeq_si() == Jred(env)(env.n - 1), env.Jeq_si() > 0,
                env.fac("InertiaMoment", env.state["Jeq_unit"]) > 0]


def _havoc_solver_attrs(env, c):
    sync_to_solver(env, env.solver)


@loops.loop_spec(f"{Q}._compute_powertrain_inertia#0", frame=("Jeq",), extra_havoc=_havoc_solver_attrs)
def inv_inertia(env, k, entry):
    sync_from_solver(env, env.solver)
    return [env.Jeq_si() == Jred(env)(k - 1), env.fac("InertiaMoment", env.state["Jeq_unit"]) > 0, k >= 1]


# ---- C03: time integration ---------------------------------------------------------------------------------------------

class Integrate(Contract):
    name = "_time_integration"
    frame = ("spd", "pos")
    props = ("C03",)
    clause_props = {2: ("C03", "C07"), 3: ("C03", "C07")}      # the two step relations are SI statements (C07)

    def pre(self, env):
        n = env.n
        return [is_set(env, "pos", n - 1), is_set(env, "spd", n - 1), is_set(env, "acc", n - 1)]

    def args(self, env, c):
        dt = H.mkq(c, "TimeInterval", "dt")
        env.ghost["dt"] = dt
        return dict(time_discretization=dt)

    def post(self, env, old):
        n = env.n
        dt = sym.term_of(L.num(env.ghost["dt"].si()))
        v = env.si("spd", n - 1, old) + env.si("acc", n - 1, old) * dt
        return [is_set(env, "spd", n - 1), is_set(env, "pos", n - 1),
                env.si("spd", n - 1) == v,
                env.si("pos", n - 1) == env.si("pos", n - 1, old) + v * dt,
                L.Forall(0, n - 1, lambda j: z3.And(same_at(env, "pos", j, old), same_at(env, "spd", j, old)), name="ji")]


# ---- C13: lock decision ---------------------------------------------------------------------------------------------

def cmp0(env, op, f, j, state):
    """the library's comparison of field f of element j with the module constant 0 (rad/s resp. Nm)"""
    kind = AM._kind_of_field(f)
    lit = AU.SI_UNIT[kind]
    uidx = Sel(state[f"{f}_unit"], j)
    su = uidx == AM.unit_idx(kind, lit)
    return L._b(AU.abs_cmp_si(op, Sel(state[f"{f}_val"], j), env.fac(kind, uidx), 0, su))


def lock_rule(env, old):
    """the documented lock/release rule as a term over the state `old`"""
    st = old
    D = st["pwm"]
    lt0 = cmp0(env, "lt", "spd", 0, st)
    gt0 = cmp0(env, "gt", "spd", 0, st)
    bad = z3.Or(D == 0, z3.And(D > 0, lt0), z3.And(D < 0, gt0))
    tgt = cmp0(env, "gt", "T", 0, st)
    tlt = cmp0(env, "lt", "T", 0, st)
    release = z3.And(z3.Not(Sel(st["T_none"], 0)), z3.Or(z3.And(tgt, D > 0), z3.And(tlt, D < 0)))
    return z3.If(z3.And(st["self_locking"], bad), z3.BoolVal(True), z3.If(release, z3.BoolVal(False), st["locked"])), bad, release


class CheckLocked(Contract):
    name = "_check_powertrain_is_locked"
    frame = ("locked",)
    props = ("C13",)

    def pre(self, env):
        return [is_set(env, "spd", 0), z3.Implies(z3.Not(Sel(env.state["T_none"], 0)), is_set(env, "T", 0))]

    def post(self, env, old):
        rule, bad, release = lock_rule(env, old)
        st = env.state
        return [st["locked"] == rule,
                # C13: a powertrain without a self-locking mating is never clamped (if it was not before)
                z3.Implies(z3.And(z3.Not(old["self_locking"]), z3.Not(old["locked"])), z3.Not(st["locked"]))]


# ---- pointwise derived quantities and recording ---------------------------------------------------------------------

def adv(env, f, j, state=None):
    """element j records variable f at this instant (class has it and its flag is set)"""
    st = state or env.state
    c = Sel(st["cls"], j)
    if f == "force":
        return z3.And(z3.Or(*[c == k for k in sorted(AM.HAS_FORCE)]), Sel(st["tfc"], j))
    if f in ("bend", "contact"):
        return z3.And(z3.Or(*[c == k for k in sorted(AM.HAS_STRESS)]), Sel(st[AM.FLAG_OF[f]], j))
    return z3.BoolVal(True)


class Force(Contract):
    name = "_compute_force"
    frame = ("force",)
    props = ("C09", "C17")

    def pre(self, env):
        return [L.Forall(0, env.n, lambda j: z3.And(is_set(env, "Td", j), is_set(env, "Tl", j)), name="jf")]

    def post(self, env, old):
        g = env.iface.g_force
        return [L.Forall(0, env.n, lambda j: z3.If(adv(env, "force", j),
                                                   z3.And(is_set(env, "force", j),
                                                          env.si("force", j) == g(j, env.si("Td", j), env.si("Tl", j))),
                                                   same_at(env, "force", j, old)), name="jf")]


@loops.loop_spec(f"{Q}._compute_force#0", frame=("force",))
def inv_force(env, k, entry):
    g = env.iface.g_force
    old = env.ghost["old"]
    (a, b), (ta, tb) = done_todo(env, k)
    return [L.Forall(a, b, lambda j: z3.If(adv(env, "force", j),
                                           z3.And(is_set(env, "force", j),
                                                  env.si("force", j) == g(j, env.si("Td", j), env.si("Tl", j))),
                                           same_at(env, "force", j, old)), name="jf"),
            L.Forall(ta, tb, lambda j: same_at(env, "force", j, old), name="jf2")]


def stress_rel(env, j, old):
    gb, gc = env.iface.g_bend, env.iface.g_contact
    st = env.state
    c = Sel(st["cls"], j)
    gear = z3.Or(*[c == k for k in sorted(AM.HAS_STRESS)])
    b = z3.And(gear, Sel(st["bsc"], j))
    cs = z3.And(b, Sel(st["csc"], j))
    return z3.And(
        z3.If(b, z3.And(is_set(env, "bend", j), env.si("bend", j) == gb(j, env.si("force", j))), same_at(env, "bend", j, old)),
        z3.If(cs, z3.And(is_set(env, "contact", j), env.si("contact", j) == gc(j, env.si("force", j))),
              same_at(env, "contact", j, old)))


class Stress(Contract):
    name = "_compute_stress"
    frame = ("bend", "contact")
    props = ("C09", "C17")

    def pre(self, env):
        st = env.state
        # flags are nested by construction (interface invariant): bending needs force data, contact needs bending data
        return [L.Forall(0, env.n, lambda j: z3.And(z3.Implies(adv(env, "bend", j), z3.And(adv(env, "force", j), is_set(env, "force", j))),
                                                    z3.Implies(adv(env, "contact", j), adv(env, "bend", j))), name="js")]

    def post(self, env, old):
        return [L.Forall(0, env.n, lambda j: stress_rel(env, j, old), name="js")]


@loops.loop_spec(f"{Q}._compute_stress#0", frame=("bend", "contact"))
def inv_stress(env, k, entry):
    old = env.ghost["old"]
    (a, b), (ta, tb) = done_todo(env, k)
    return [L.Forall(a, b, lambda j: stress_rel(env, j, old), name="js"),
            L.Forall(ta, tb, lambda j: z3.And(same_at(env, "bend", j, old), same_at(env, "contact", j, old)), name="js2")]


class Current(Contract):
    name = "_compute_electric_current"
    frame = ("cur",)
    props = ("C08", "C15", "C17")

    def pre(self, env):
        return [is_set(env, "Td", 0)]

    def post(self, env, old):
        st = env.state
        return [z3.If(st["ecc"], z3.And(z3.Not(st["cur_none"]),
                                        env.cur_si() == motor_current(env, st["pwm"], env.si("Td", 0))),
                      z3.And(st["cur_val"] == old["cur_val"], st["cur_unit"] == old["cur_unit"],
                             st["cur_none"] == old["cur_none"]))]


REC_FIELDS = ("pos", "spd", "acc", "T", "Td", "Tl", "force", "bend", "contact")
REC_FRAME = tuple(f"hlen_{f}" for f in REC_FIELDS) + tuple(f"last_{f}" for f in REC_FIELDS) + \
    ("hlen_cur", "last_cur", "hlen_pwm", "pwm_key", "last_pwm")


def rec_rel(env, j, old):
    """element j got exactly one new sample of every variable it records, equal to its current attribute"""
    st = env.state
    parts = []
    for f in REC_FIELDS:
        a = adv(env, f, j)
        parts.append(z3.If(a, z3.And(Sel(st[f"hlen_{f}"], j) == Sel(old[f"hlen_{f}"], j) + 1,
                                     *[Sel(st[f"last_{f}_{s}"], j) == Sel(st[f"{f}_{s}"], j) for s in ("val", "unit", "none")]),
                           z3.And(Sel(st[f"hlen_{f}"], j) == Sel(old[f"hlen_{f}"], j),
                                  *[Sel(st[f"last_{f}_{s}"], j) == Sel(old[f"last_{f}_{s}"], j) for s in ("val", "unit", "none")])))
    return z3.And(*parts)


def rec_same(env, j, old):
    st = env.state
    return z3.And(*[Sel(st[nm], j) == Sel(old[nm], j) for f in REC_FIELDS
                    for nm in (f"hlen_{f}", f"last_{f}_val", f"last_{f}_unit", f"last_{f}_none")])


def rec_motor(env, old, done):
    """the motor's own series (current, duty cycle): one sample each once the motor was processed"""
    st = env.state
    yes = z3.And(st["hlen_cur"] == z3.If(old["ecc"], old["hlen_cur"] + 1, old["hlen_cur"]),
                 z3.Implies(old["ecc"], z3.And(st["last_cur_val"] == st["cur_val"], st["last_cur_unit"] == st["cur_unit"],
                                               st["last_cur_none"] == st["cur_none"])),
                 z3.Implies(z3.Not(old["ecc"]), z3.And(st["last_cur_val"] == old["last_cur_val"],
                                                       st["last_cur_unit"] == old["last_cur_unit"],
                                                       st["last_cur_none"] == old["last_cur_none"])),
                 st["hlen_pwm"] == z3.If(old["pwm_key"], old["hlen_pwm"] + 1, 1), st["pwm_key"], st["last_pwm"] == st["pwm"])
    no = z3.And(st["hlen_cur"] == old["hlen_cur"], st["hlen_pwm"] == old["hlen_pwm"], st["pwm_key"] == old["pwm_key"],
                st["last_pwm"] == old["last_pwm"], st["last_cur_val"] == old["last_cur_val"],
                st["last_cur_unit"] == old["last_cur_unit"], st["last_cur_none"] == old["last_cur_none"])
    return z3.If(done, yes, no)


class Record(Contract):
    name = "_update_time_variables"
    frame = REC_FRAME
    props = ("C17", "C16")

    def post(self, env, old):
        return [L.Forall(0, env.n, lambda j: rec_rel(env, j, old), name="jr"), rec_motor(env, old, z3.BoolVal(True))]


@loops.loop_spec(f"{Q}._update_time_variables#0", frame=REC_FRAME)
def inv_record(env, k, entry):
    old = env.ghost["old"]
    (a, b), (ta, tb) = done_todo(env, k)
    return [L.Forall(a, b, lambda j: rec_rel(env, j, old), name="jr"),
            L.Forall(ta, tb, lambda j: rec_same(env, j, old), name="jr2"),
            rec_motor(env, old, z3.And(a <= 0, 0 < b)), k >= -1]


CONTRACTS = [PosSpd(), Acc(), Locked(), Drive(), Load(), Net(), Inertia(), Integrate(), CheckLocked(), Force(), Stress(),
             Current(), Record()]


# =====================================================================================================
# verification of one method against its contract
# =====================================================================================================

def job_method(ct, extra_pre=None):
    def body(c, O):
        if c.concrete:
            return
        env, solver = make_env(c)
        for g in ct.pre(env):
            c.assume_goal(g)
        if extra_pre:
            extra_pre(env, c)
        Jred(env) if ct.name in ("_compute_powertrain_inertia",) else None
        kw = ct.args(env, c)
        sync_to_solver(env, solver)
        old = env.state.snapshot()
        env.ghost["old"] = old
        if c.solver.check() == z3.unsat:
            O.fail("contract:precondition-satisfiable", props=ct.props, note="contradictory requires")
            return
        O.cover("pre:satisfiable")
        st, r = H.call(getattr(solver, ct.name), **kw)
        sync_from_solver(env, solver)
        if st == "raise":
            if isinstance(r, TypeError) and ct.name == "_compute_load_torque":
                O.cover("raises:TypeError")
                bad = [e for e in env.log if e[0] == "ext"]
                O.prove("raises:TypeError-only-if-a-load-function-returned-a-non-Torque",
                        z3.Or(*[z3.Not(env.ext_ok(e[1], e[2], e[3], e[4])) for e in bad]) if bad else False, props=ct.props)
                return
            O.fail("no-unexpected-exception", props=ct.props, note=f"{type(r).__name__}: {r}")
            return
        O.cover("returns")
        post = ct.post(env, old)
        for k, g in enumerate(post):
            O.prove(f"ensures[{k}]", g, props=getattr(ct, "clause_props", {}).get(k, ct.props))
        outside = frame_ok(env, old, ct.frame)
        O.prove("frame:modifies-only-" + ",".join(ct.frame[:4]) + ("..." if len(ct.frame) > 4 else ""),
                not outside, props=ALLP, note=f"writes outside the frame: {outside}")
    allp = tuple(sorted(set(ct.props) | {p for v in getattr(ct, "clause_props", {}).values() for p in v}))
    return Job(f"solver.{ct.name}", body, allp, functions=[f"{Q}.{ct.name}"], expect_covers=("returns",),
               meta=dict(family="solver-method", method=ct.name))


def job_jred_positive():
    """lemma (induction): Jred(k) > 0 for all k, from ratio > 0 and J > 0"""
    def body(c, O):
        if c.concrete:
            return
        env = AM.Env(c)
        env.assume_wellformed()
        st = env.state
        f = z3.Function("g_Jred", AM.I, AM.R)
        k = z3.Int("k")
        c.assume(f(0) == env.J_si(0))
        O.prove("lemma:Jred(0)>0", f(0) > 0, props=("C03",))
        c.assume(z3.And(k >= 1, k < env.n, f(k - 1) > 0, f(k) == f(k - 1) * Sel(st["ratio"], k) + env.J_si(k)))
        O.prove("lemma:Jred(k-1)>0=>Jred(k)>0", f(k) > 0, props=("C03",))
    return Job("solver.lemma[Jred-positive]", body, ("C03",), functions=["spec: documented inertia reduction"],
               meta=dict(family="solver-lemma"))



# =====================================================================================================
# contract stubs (modular verification of callers)
# =====================================================================================================

def stub_of(ct, env, solver, record=True):
    """replace solver.<ct.name> by its contract: prove pre, havoc frame, assume post"""
    def stub(*a, **k):
        c = sym.ctx()
        sync_from_solver(env, solver)
        if ct.name == "_time_integration":
            env.ghost["dt"] = k.get("time_discretization", a[0] if a else None)
            rdt = env.ghost.get("run_dt")
            if rdt is not None:
                # C03 at the level of a run: the step the integrator is handed is THIS run's time_discretization
                arg = env.ghost["dt"]
                # (stated with a cut over the two magnitudes alone: it is an identity when the run hands its own argument on)
                c.prove_in_path("call[_time_integration]:time-step=this-run's-time_discretization(SI)",
                                L._b(isinstance(arg, SymQ)) if not isinstance(arg, SymQ) else
                                L.Via([sym.term_of(rdt.si()) > 0], sym.term_of(arg.si()) == sym.term_of(rdt.si())))
        for i, g in enumerate(ct.pre(env)):
            c.prove_in_path(f"call[{ct.name}]:requires[{i}]", g)
        old = env.state.snapshot()
        env.state.havoc(ct.frame, tag=c.fresh_name(ct.name))
        sync_to_solver(env, solver)
        for g in ct.post(env, old):
            c.assume_goal(g)
        env.log.append(("call", ct.name))
        if ct.name == "_compute_powertrain_variables" and "locked_at_first_instant" not in env.ghost:
            env.ghost["locked_at_first_instant"] = old["locked"]
        if ct.name == "_compute_load_torque":
            # exceptional outcome of the contract: TypeError when a load function returns a non-Torque
            bad = c.boolean(c.fresh_name("load-fn-bad"), is_input=False)
            if c.decide(bad.term):
                raise TypeError("Function 'external_torque' must return an instance of 'Torque'.")
    setattr(solver, ct.name, stub)


BY_NAME = {ct.name: ct for ct in CONTRACTS}


class AbsMotorControl:
    """motor_control argument: apply_rules() is the C14 contract (contracts/control.py proves it for PWMControl):
    either ValueError (two or more applicable rules, duty cycle unchanged) or the duty cycle is set within [-1, 1]."""

    def __init__(self, env):
        self.env = env
        c = sym.ctx()
        self.n_rules = z3.Int(c.fresh_name("n_rules"))          # any number of rules, zero included
        c.assume(self.n_rules >= 0)

    @property
    def rules(self):
        return AbsRuleList(self)

    def apply_rules(self):
        env, c = self.env, sym.ctx()
        st = env.state
        env.log.append(("apply_rules",))
        conflict = c.boolean(c.fresh_name("rules-conflict"), is_input=False)
        if c.decide(z3.And(conflict.term, self.n_rules >= 2)):
            raise ValueError("At the same time multiple PWM rules are applicable.")
        new = z3.Real(c.fresh_name("pwm"))
        c.assume(z3.And(new >= -1, new <= 1))
        c.assume(z3.Implies(self.n_rules == 0, new == 1))      # no rule at all: the default duty cycle (C14, 0-rule job)
        st["pwm"] = new


class AbsRuleList:
    """motor_control.rules as the solver may look at it: its length / truth value (the rules themselves are the controller's)"""

    def __init__(self, mc):
        self.mc = mc

    def sym_len(self):
        return AM.symint(self.mc.n_rules)

    def __bool__(self):
        return sym.ctx().decide(self.mc.n_rules > 0)

    def __iter__(self):
        raise EngineError("the solver iterates over the controller's rules: not part of the interface model")


def _mc_isinstance(obj, cls):
    if isinstance(obj, AbsMotorControl):
        return any(getattr(t, "__name__", "") in ("MotorControlBase", "PWMControl", "object") for t in sym._unpack_types(cls))
    if isinstance(obj, AbsStop):
        return any(getattr(t, "__name__", "") in ("StopCondition", "object") for t in sym._unpack_types(cls))
    return None


class AbsStop:
    """stop_condition argument: check_condition() is a pure boolean function of the current state
    (contracts/stop.py: = operator(sensor reading of the live attribute, threshold)); it modifies nothing."""

    def __init__(self, env):
        self.env = env
        self.n_checks = 0

    def check_condition(self):
        c = sym.ctx()
        self.n_checks += 1
        b = c.boolean(c.fresh_name("stop"), is_input=False)
        self.env.log.append(("stop_check", b.term, self.env.state.snapshot()))
        return b


sym.ISINSTANCE_HOOKS.insert(0, _mc_isinstance)


# ---- per-instant predicate: the postcondition of _compute_powertrain_variables ----------------------------------

def vars_pre(env):
    n, st = env.n, env.state
    return [is_set(env, "pos", n - 1), is_set(env, "spd", n - 1), st["tlen"] > 0, extp(env, n - 1),
            L.Forall(1, n, lambda j: Sel(st["eff"], j) > 0, name="je"),
            env.Jeq_si() > 0, env.Jeq_si() == Jred(env)(n - 1), env.fac("InertiaMoment", st["Jeq_unit"]) > 0,
            st["pwm"] >= -1, st["pwm"] <= 1,
            z3.Implies(z3.Not(Sel(st["T_none"], 0)), is_set(env, "T", 0)),
            # interface invariant of the gear classes (proved per class in contracts/elements.py): flags are nested
            L.Forall(0, n, lambda j: z3.And(z3.Implies(adv(env, "bend", j), adv(env, "force", j)),
                                            z3.Implies(adv(env, "contact", j), adv(env, "bend", j))), name="jfl"),
            # when locked on entry the accelerations already exist (they are not recomputed)
            z3.Implies(st["locked"], L._b(True))]


def pinst(env, old, mid_pwm_in_force):
    """Pinst(pre=old, post=current state) as a list of (name, goal, props)"""
    n, st = env.n, env.state
    out = []
    out.append(("coupling:pos,spd,acc", L.Forall(0, n - 1, lambda j: z3.And(coupling(env, "pos", j), coupling(env, "spd", j),
                                                                             coupling(env, "acc", j)), name="jc"), ("C01", "C07")))
    out.append(("coupling:last-element-position-unchanged", same_at(env, "pos", n - 1, old), ("C01", "C03")))
    out.append(("coupling:last-element-speed-unchanged-unless-held(then 0)",
                z3.If(st["locked"], env.si("spd", n - 1) == 0, same_at(env, "spd", n - 1, old)), ("C03", "C13")))
    out.append(("all-set:pos,spd,acc,T,Td,Tl", L.Forall(0, n, lambda j: z3.And(*[is_set(env, f, j) for f in
                                                                                   ("pos", "spd", "acc", "T", "Td", "Tl")]), name="js"),
                ("C17", "C01", "C02")))
    # C13
    D0 = old["pwm"]
    lt0 = cmp0(env, "lt", "spd", 0, st)
    gt0 = cmp0(env, "gt", "spd", 0, st)
    out.append(("lock:self-locking=>motor-never-driven-against-the-duty-cycle-in-force",
                z3.Implies(old["self_locking"], z3.And(z3.Implies(D0 == 0, env.si("spd", 0) == 0),
                                                       z3.Implies(D0 > 0, z3.Not(lt0)), z3.Implies(D0 < 0, z3.Not(gt0)))), ("C13",)))
    out.append(("lock:held=>all-speeds-and-accelerations-zero(forall)",
                L.Forall(0, n, lambda j: z3.Implies(st["locked"], z3.And(env.si("spd", j) == 0, env.si("acc", j) == 0)), name="jl"),
                ("C13", "C01")))
    out.append(("lock:no-self-locking-mating=>never-clamped",
                z3.Implies(z3.And(z3.Not(old["self_locking"]), z3.Not(old["locked"])), z3.Not(st["locked"])), ("C13",)))
    out.append(("lock:self_locking-flag-unchanged", st["self_locking"] == old["self_locking"], ("C13",)))
    # C02
    out.append(("load:load-function-at-recorded-position-speed-time;propagated-upstream",
                L.Forall(1, n, lambda j: load_rel(env, j), name="jt"), ("C02", "C07")))
    out.append(("control:duty-cycle-in-[-1,1]", z3.And(st["pwm"] >= -1, st["pwm"] <= 1), ("C14",)))
    out.append(("drive:motor-characteristic-at-recorded-speed-and-duty-cycle",
                env.si("Td", 0) == motor_law(env, st["pwm"], env.si("spd", 0)), ("C02", "C08", "C07")))
    out.append(("drive:propagated-downstream-by-efficiency-and-ratio",
                L.Forall(1, n, lambda j: env.si("Td", j) == env.si("Td", j - 1) * Sel(st["eff"], j) * Sel(st["ratio"], j), name="jd"), ("C02", "C07")))
    out.append(("net:torque=driving-load", L.Forall(0, n, lambda j: env.si("T", j) == env.si("Td", j) - env.si("Tl", j), name="jn"), ("C02", "C07")))
    # C03
    out.append(("motion:not-held=>acceleration=net-torque/equivalent-inertia",
                z3.Implies(z3.Not(st["locked"]), env.si("acc", n - 1) * Jred(env)(n - 1) == env.si("T", n - 1)), ("C03", "C07")))
    # derived
    g = env.iface.g_force
    out.append(("derived:force-from-final-torques",
                L.Forall(0, n, lambda j: z3.Implies(adv(env, "force", j), z3.And(is_set(env, "force", j),
                                                                                 env.si("force", j) == g(j, env.si("Td", j), env.si("Tl", j)))), name="jf"),
                ("C09", "C17")))
    out.append(("derived:stresses-from-final-force",
                L.Forall(0, n, lambda j: z3.And(
                    z3.Implies(adv(env, "bend", j), z3.And(is_set(env, "bend", j), env.si("bend", j) == env.iface.g_bend(j, env.si("force", j)))),
                    z3.Implies(adv(env, "contact", j), z3.And(is_set(env, "contact", j), env.si("contact", j) == env.iface.g_contact(j, env.si("force", j))))), name="jst"),
                ("C09", "C17")))
    out.append(("derived:current-from-final-driving-torque-and-duty-cycle",
                z3.Implies(st["ecc"], z3.And(z3.Not(st["cur_none"]), env.cur_si() == motor_current(env, st["pwm"], env.si("Td", 0)))),
                ("C08", "C15", "C17")))
    # C17 / C16: exactly one sample of every recorded variable, equal to the final attribute
    out.append(("record:one-sample-per-recorded-variable=current-attribute",
                [L.Forall(0, n, lambda j: rec_rel(env, j, old), name="jr"), rec_motor(env, old, z3.BoolVal(True))], ("C17", "C16")))
    return out


PINST_FRAME = ("pos", "spd", "acc", "T", "Td", "Tl", "force", "bend", "contact", "cur", "pwm", "locked") + REC_FRAME


class Vars(Contract):
    name = "_compute_powertrain_variables"
    frame = PINST_FRAME
    props = ("C01", "C02", "C03", "C13", "C14", "C16", "C17", "C07")

    def pre(self, env):
        return vars_pre(env)

    def post(self, env, old):
        return [g for _, g, _ in pinst(env, old, None)]


ORDER = ["_compute_angular_position_and_speed", "_check_powertrain_is_locked", "_compute_load_torque", "apply_rules?",
         "_compute_driving_torque", "_compute_torque", "_compute_force", "_compute_stress", "_compute_electric_current",
         "_update_time_variables"]



# ---- order of the steps inside one instant: only the dependencies the properties need (a partial order), so that
# ---- reordering independent steps is not reported
def instant_order(seq, held, with_control):
    """seq: names of the steps executed for one instant -> list of (constraint, holds)"""
    P, K, L_, LD, C, DR, N, A, F, S, I, R = (
        "_compute_angular_position_and_speed", "_check_powertrain_is_locked",
        "_compute_locked_powertrain_angular_speed_and_acceleration", "_compute_load_torque", "apply_rules",
        "_compute_driving_torque", "_compute_torque", "_compute_angular_acceleration", "_compute_force", "_compute_stress",
        "_compute_electric_current", "_update_time_variables")

    def once(x):
        return seq.count(x) == 1

    def before(a, b):
        return once(a) and once(b) and seq.index(a) < seq.index(b)
    must = [P, K, LD, DR, N, F, S, I, R] + ([C] if with_control else []) + ([L_] if held else [A])
    out = [("every-step-exactly-once", all(once(x) for x in must) and (seq.count(A) == 0 if held else seq.count(L_) == 0))]
    out.append(("position/speed-propagated-before-the-lock-test", before(P, K)))
    if held:
        out.append(("clamp-right-after-the-lock-test-and-before-load-and-torques", before(K, L_) and before(L_, LD) and before(L_, DR)))
    out.append(("load-evaluated-after-the-lock-test(recorded speed)", before(K, LD)))
    if with_control:
        out.append(("control-applied-before-the-motor-law", before(C, DR)))
        out.append(("control-applied-after-the-lock-test(duty cycle in force)", before(K, C)))
    out.append(("net-torque-after-driving-and-load", before(DR, N) and before(LD, N)))
    if not held:
        out.append(("acceleration-after-net-torque", before(N, A)))
    out.append(("force-after-torques;stress-after-force;current-after-driving-torque-and-control",
                before(DR, F) and before(LD, F) and before(F, S) and before(DR, I) and (before(C, I) if with_control else True)))
    out.append(("record-last", all(before(x, R) for x in must if x != R)))
    return out


def job_vars(with_control):
    ct = Vars()

    def body(c, O):
        if c.concrete:
            return
        env, solver = make_env(c)
        for g in ct.pre(env):
            c.assume_goal(g)
        for name in ("_compute_angular_position_and_speed", "_check_powertrain_is_locked",
                     "_compute_locked_powertrain_angular_speed_and_acceleration", "_compute_load_torque",
                     "_compute_driving_torque", "_compute_torque", "_compute_angular_acceleration", "_compute_force",
                     "_compute_stress", "_compute_electric_current", "_update_time_variables"):
            stub_of(BY_NAME[name], env, solver)
        sync_to_solver(env, solver)
        old = env.state.snapshot()
        env.ghost["old"] = old
        if c.solver.check() == z3.unsat:
            O.fail("contract:precondition-satisfiable", props=ct.props)
            return
        mc = AbsMotorControl(env) if with_control else None
        st_, r = H.call(solver._compute_powertrain_variables, motor_control=mc)
        sync_from_solver(env, solver)
        if st_ == "raise":
            if isinstance(r, TypeError) and "external_torque" in str(r):
                O.cover("raises:TypeError(load function)")
                O.prove("raises:TypeError(load function)=>nothing-recorded", not frame_ok(env, old, PINST_FRAME) and
                        not [f for f in env.state.changed_since(old) if f in REC_FRAME], props=("C02", "C17"))
                return
            if isinstance(r, ValueError) and with_control:
                O.cover("raises:ValueError(conflicting rules)")
                O.prove("raises:ValueError(rule conflict)=>duty-cycle-unchanged-and-nothing-recorded",
                        z3.And(env.state["pwm"] == old["pwm"], not [f for f in env.state.changed_since(old) if f in REC_FRAME]),
                        props=("C14", "C17"))
                return
            O.fail("no-unexpected-exception", props=ct.props, note=f"{type(r).__name__}: {r}")
            return
        O.cover("returns")
        for name, g, props in pinst(env, old, None):
            O.prove(f"Pinst:{name}", g, props=props)
        calls = [e[1] if e[0] == "call" else e[0] for e in env.log if e[0] in ("call", "apply_rules")]
        held = "_compute_locked_powertrain_angular_speed_and_acceleration" in calls
        for nm, ok in instant_order(calls, held, with_control):
            O.prove(f"order:{nm}", ok, props=("C02", "C03", "C13", "C14", "C17"), note=f"call order was {calls}")
        outside = frame_ok(env, old, PINST_FRAME)
        O.prove("frame:ratios,efficiencies,inertias,classes,flags,time-axis,Jeq-unchanged", not outside,
                props=("C01", "C02", "C03", "C17"), note=f"writes outside the frame: {outside}")
    tag = "with-motor-control" if with_control else "without-motor-control"
    return Job(f"solver._compute_powertrain_variables[{tag}]", body, ct.props,
               functions=[f"{Q}._compute_powertrain_variables", f"{Q}._compute_motor_control"], expect_covers=("returns",),
               meta=dict(family="solver-method", method="_compute_powertrain_variables"))



# =====================================================================================================
# Solver.run  (C11 time axis, C12 continuation, C16 stop condition, C17 and the history invariant)
# =====================================================================================================

class Grid:
    """what the time loop of Solver.run iterates over, in whichever shape the code has:
         for k in np.arange(t0 + dt, t0 + T + dt, dt)            (ASSUMED numpy contract, tier R)
         for step in range(1, ceil(round(T/dt, 9)) + 1)          (round/ceil: their real-number semantics)
       N = number of iterations requested; count_facts: what defines N; grid_facts: raw value -> SI links"""

    def __init__(self, env):
        self.env = env
        self.N = None
        self.count_facts = []
        self.grid_facts = []
        self.t0 = env.state["tlast_val"]          # SI time of the last instant before the loop
        self.kind = None


def grid_of(env):
    if "grid" not in env.ghost:
        env.ghost["grid"] = Grid(env)
    return env.ghost["grid"]


class SymArange:
    """np.arange(start, stop, step) -- ASSUMED contract of numpy (tier R): ceil((stop-start)/step) elements
    start + i*step for step > 0."""

    def __init__(self, env, start, stop, step):
        self.env = env
        self.start, self.stop, self.step = (sym.term_of(x) for x in (start, stop, step))
        c = sym.ctx()
        self.N = z3.Int(c.fresh_name("N"))
        c.inputs["N(arange length)"] = self.N
        pos = env.ghost.get("arange_facts", [])
        c.prove_in_path("call[numpy.arange]:step>0", L.Via(pos, self.step > 0))
        Nr = z3.ToReal(self.N)
        contract = z3.And(self.N >= 0,
                          z3.If(self.stop > self.start,
                                z3.And((Nr - 1) * self.step < self.stop - self.start, self.stop - self.start <= Nr * self.step),
                                self.N == 0))
        c.assume(contract)
        g = grid_of(env)
        g.kind = "numpy.arange"
        g.N = self.N
        dtq, Tq = env.ghost["run_dt"], env.ghost["run_T"]
        fdt = env.fac("Time", AM.unit_idx("Time", dtq.unit))
        DT, TT = sym.term_of(dtq.si()), sym.term_of(Tq.si())
        posf = [fdt > 0, DT > 0, TT > 0]
        F_step = L.Via(posf, self.step * fdt == DT)
        F_start = L.Via(posf, self.start * fdt == g.t0 + DT)
        F_stop = L.Via(posf, self.stop * fdt == g.t0 + TT + DT)
        g.named = {"raw-step*unit=dt(SI)": F_step, "raw-first-new-instant*unit=previous+dt(SI)": F_start,
                   "raw-stop*unit=previous+T+dt(SI)": F_stop}
        g.grid_facts = [F_step, F_start]
        g.count_facts = posf + [contract, F_step, F_start, F_stop]

    def vc_iter(self):
        return AM._Iter(z3.IntVal(0), self.N, 1, z3.IntVal(0), self.N,
                        lambda k: SymNum(self.start + z3.ToReal(k) * self.step, "float"))


def np_arange(start, stop=None, step=1, *a, **k):
    if not any(sym.is_sym(x) for x in (start, stop, step)):
        import numpy
        return numpy.arange(start, stop, step, *a, **k)
    return SymArange(sym.ctx().env, start, stop, step)


def sym_round(x, ndigits=None):
    """round(x, n) over the reals: the nearest multiple of 10^-n (ties either way)"""
    if not sym.is_sym(x):
        import builtins
        return builtins.round(x, ndigits) if ndigits is not None else builtins.round(x)
    c = sym.ctx()
    nd = int(ndigits or 0)
    scale = z3.RealVal(10 ** nd)
    xt = sym.term_of(x)
    q = z3.Int(c.fresh_name("round_q"))
    r = z3.Real(c.fresh_name("round"))
    facts = [r * scale == z3.ToReal(q), xt * scale - z3.ToReal(q) <= z3.RealVal("1/2"), xt * scale - z3.ToReal(q) >= -z3.RealVal("1/2")]
    for f in facts:
        c.assume(f)
    env = c.env
    if env is not None:
        g = grid_of(env)
        g.count_facts += facts
        g.round_arg = xt
    return SymNum(r, "float" if ndigits is not None else "int")


def sym_ceil(x):
    if not sym.is_sym(x):
        import math
        return math.ceil(x)
    c = sym.ctx()
    xt = sym.term_of(x)
    m = z3.Int(c.fresh_name("ceil"))
    facts = [z3.ToReal(m) - 1 < xt, xt <= z3.ToReal(m)]
    for f in facts:
        c.assume(f)
    env = c.env
    if env is not None:
        g = grid_of(env)
        g.count_facts += facts
        g.N = m
        g.kind = "range(1, ceil(round(T/dt, 9)) + 1)"
        dtq, Tq = env.ghost["run_dt"], env.ghost["run_T"]
        DT, TT = sym.term_of(dtq.si()), sym.term_of(Tq.si())
        fdt = env.fac("Time", AM.unit_idx("Time", dtq.unit))
        ra = getattr(g, "round_arg", None)
        g.count_facts += [fdt > 0, DT > 0, TT > 0] + ([ra * DT == TT] if ra is not None else [])
        g.named = {"ratio-argument-of-round*dt=T(SI)": L.Via([DT > 0, TT > 0], ra * DT == TT)} if ra is not None else {}
        g.grid_facts = [fdt > 0]
    return AM.symint(m)


def hist_ok(env, j):
    """every variable element j records has one sample per instant and its last sample is the current attribute"""
    st = env.state
    parts = []
    for f in REC_FIELDS:
        parts.append(z3.Implies(adv(env, f, j), z3.And(Sel(st[f"hlen_{f}"], j) == st["tlen"],
                                                       *[Sel(st[f"last_{f}_{s}"], j) == Sel(st[f"{f}_{s}"], j) for s in ("val", "unit", "none")])))
    return z3.And(*parts)


def run_state_inv(env):
    """RunInv: what holds of the persisted state after every recorded instant (dict name -> goal)"""
    n, st = env.n, env.state
    d = {}
    d["C17:one-sample-per-instant;last-sample=current-attribute"] = [
        L.Forall(0, n, lambda j: hist_ok(env, j), name="jh"),
        z3.Implies(st["ecc"], z3.And(st["hlen_cur"] == st["tlen"], st["last_cur_val"] == st["cur_val"],
                                     st["last_cur_unit"] == st["cur_unit"], st["last_cur_none"] == st["cur_none"])),
        st["pwm_key"], st["hlen_pwm"] == st["tlen"], st["last_pwm"] == st["pwm"]]
    d["C01:coupling-at-the-recorded-instant"] = L.Forall(0, n - 1, lambda j: z3.And(
        coupling(env, "pos", j), coupling(env, "spd", j), coupling(env, "acc", j)), name="jc")
    d["all-set"] = L.Forall(0, n, lambda j: z3.And(*[is_set(env, f, j) for f in ("pos", "spd", "acc", "T", "Td", "Tl")]), name="js")
    d["C02:torques-at-the-recorded-instant"] = [
        env.si("Td", 0) == motor_law(env, st["pwm"], env.si("spd", 0)),
        L.Forall(1, n, lambda j: env.si("Td", j) == env.si("Td", j - 1) * Sel(st["eff"], j) * Sel(st["ratio"], j), name="jd"),
        L.Forall(1, n, lambda j: load_rel(env, j), name="jt"),
        L.Forall(0, n, lambda j: env.si("T", j) == env.si("Td", j) - env.si("Tl", j), name="jn")]
    d["C03:not-held=>acceleration=net-torque/Jred"] = z3.Implies(
        z3.Not(st["locked"]), env.si("acc", n - 1) * Jred(env)(n - 1) == env.si("T", n - 1))
    d["C13:held=>all-speeds-and-accelerations-zero"] = L.Forall(
        0, n, lambda j: z3.Implies(st["locked"], z3.And(env.si("spd", j) == 0, env.si("acc", j) == 0)), name="jl")
    d["C14:recorded-duty-cycle-in-[-1,1]"] = z3.And(st["pwm"] >= -1, st["pwm"] <= 1)
    d["solver:Jeq=Jred(n-1)>0"] = z3.And(env.Jeq_si() == Jred(env)(n - 1), env.Jeq_si() > 0,
                                         env.fac("InertiaMoment", st["Jeq_unit"]) > 0)
    d["axis:non-empty"] = st["tlen"] >= 1
    return d


RUN_LOOP = f"{Q}.run#0"
RUN_FRAME = PINST_FRAME + ("tlen", "tlast")


@loops.loop_spec(RUN_LOOP, frame=RUN_FRAME, extra_havoc=_havoc_solver_attrs)
def inv_run(env, i, entry):
    sync_from_solver(env, env.solver)
    st = env.state
    g = env.ghost
    grid = grid_of(env)
    if entry:
        g["run_entry"] = st.snapshot()
        g["run_entry_log"] = len(env.log)
        g["run_first"] = i                      # loop position on entry (0 for arange, 1 for range(1, n+1))
    e = g["run_entry"]
    dtq = g["run_dt"]
    done = z3.simplify(i - g["run_first"])      # iterations completed
    DT = sym.term_of(dtq.si())
    fdt = env.fac("Time", AM.unit_idx("Time", dtq.unit))
    d = dict(run_state_inv(env))
    d["C11:instants-counted"] = st["tlen"] == e["tlen"] + done
    # SI time of the instant recorded last = previous final time + (iterations done) * dt, stamped with dt's unit
    d["C11:last-instant=previous+k*dt(SI)"] = L.Via(
        [fdt > 0, DT > 0] + list(grid.grid_facts), st["tlast_val"] == e["tlast_val"] + z3.ToReal(done) * DT)
    d["C11:instants-carry-dt's-unit"] = z3.If(done == 0, st["tlast_unit"] == e["tlast_unit"],
                                              st["tlast_unit"] == AM.unit_idx("Time", dtq.unit))
    d["range"] = z3.And(done >= 0, done <= grid.N) if grid.N is not None else z3.BoolVal(False)
    d["C13:lock-flag-only-with-a-self-locking-mating"] = z3.Implies(z3.Not(st["self_locking"]), z3.Not(st["locked"]))
    return d


def job_run(fresh, with_stop, with_control, then_continue=False):
    """then_continue: after the (fresh) run returns, the SAME solver object runs again with another dt and T -- the second run
    starts from whatever the real first run left in the solver object (not only from the state the abstract model knows of)"""
    props = ("C01", "C02", "C03", "C11", "C12", "C13", "C14", "C16", "C17", "C07")

    def body(c, O):
        if c.concrete:
            return
        env, solver = make_env(c)
        st = env.state
        n = env.n
        Jred(env)
        for name in ("_compute_powertrain_inertia", "_time_integration"):
            stub_of(BY_NAME[name], env, solver)
        stub_of(Vars(), env, solver)
        dt = H.mkq(c, "TimeInterval", "dt")
        T = H.mkq(c, "TimeInterval", "T")
        env.ghost["run_dt"] = dt
        env.ghost["run_T"] = T
        env.ghost["arange_facts"] = [env.fac("Time", AM.unit_idx("Time", dt.unit)) > 0, dt.si() > 0]
        # preconditions --------------------------------------------------------------------------------
        c.assume_goal(L.Forall(1, n, lambda j: Sel(st["eff"], j) > 0, name="je"))          # property C02 quantifier
        c.assume(extp(env, n - 1))                                                          # load on the last element
        c.assume(AM.ElemRef(env, n - 1)._in(AM.HAS_STRESS))     # ... which is a GearBase gear (run rejects anything else)
        c.assume_goal(L.Forall(0, n, lambda j: z3.And(z3.Implies(adv(env, "bend", j), adv(env, "force", j)),
                                                      z3.Implies(adv(env, "contact", j), adv(env, "bend", j))), name="jfl"))
        c.assume(z3.And(st["pwm"] >= -1, st["pwm"] <= 1))                                    # DCMotor class invariant (C14)
        c.assume(z3.Implies(z3.Not(Sel(st["T_none"], 0)), is_set(env, "T", 0)))
        if fresh:
            c.assume(st["tlen"] == 0)
            # a powertrain before its first run / after reset: empty histories, initial conditions on the last element
            c.assume_goal(L.Forall(0, n, lambda j: z3.And(*[Sel(st[f"hlen_{f}"], j) == 0 for f in REC_FIELDS]), name="j0"))
            c.assume(z3.And(st["hlen_cur"] == 0, z3.Implies(st["pwm_key"], st["hlen_pwm"] == 0)))
            c.assume(z3.And(is_set(env, "pos", n - 1), is_set(env, "spd", n - 1)))
            c.assume(z3.Implies(z3.Not(st["self_locking"]), z3.Not(st["locked"])))
        else:
            c.assume(st["tlen"] >= 1)
            for g in run_state_inv(env).values():
                c.assume_goal(g)
            c.assume(z3.Implies(z3.Not(st["self_locking"]), z3.Not(st["locked"])))
        mc = AbsMotorControl(env) if with_control else None
        stop = AbsStop(env) if with_stop else None
        sync_to_solver(env, solver)
        old = env.state.snapshot()
        env.ghost["old"] = old
        if c.solver.check() == z3.unsat:
            O.fail("contract:precondition-satisfiable", props=props)
            return
        st_, r = H.call(solver.run, time_discretization=dt, simulation_time=T, motor_control=mc, stop_condition=stop)
        sync_from_solver(env, solver)
        DT, TT = sym.term_of(L.num(dt.si())), sym.term_of(L.num(T.si()))
        if st_ == "raise":
            if isinstance(r, ValueError) and "time_discretization" in str(r):
                O.cover("raises:ValueError(dt>=T)")
                O.prove("raises:ValueError(dt>=T)=>state-unchanged", not env.state.changed_since(old), props=("C11",))
                return
            if isinstance(r, ValueError) and "external_torque" in str(r):
                O.fail("run:load-on-the-last-gear=>accepted", props=("C02",), note=str(r))
                return
            if isinstance(r, ValueError) and with_control:
                O.cover("raises:ValueError(conflicting rules)")
                return
            if isinstance(r, TypeError) and "external_torque" in str(r):
                O.cover("raises:TypeError(load function)")
                return
            O.fail("no-unexpected-exception", props=props, note=f"{type(r).__name__}: {r}")
            return
        O.cover("returns")
        if then_continue:
            # second run on the same solver object: the loop-invariant, frame and call obligations of the real run() are recorded
            # on the path by the loop cut and the contract stubs (among them: the integrator gets THIS run's time step)
            dt2 = H.mkq(c, "TimeInterval", "dt_of_the_second_run")
            T2 = H.mkq(c, "TimeInterval", "T_of_the_second_run")
            for key in ("grid", "run_entry", "run_first", "loop_exit", "run_entry_log"):
                env.ghost.pop(key, None)
            env.ghost["run_dt"], env.ghost["run_T"] = dt2, T2
            env.ghost["arange_facts"] = [env.fac("Time", AM.unit_idx("Time", dt2.unit)) > 0, dt2.si() > 0]
            env.ghost["old"] = env.state.snapshot()
            st2, r2 = H.call(solver.run, time_discretization=dt2, simulation_time=T2, motor_control=None, stop_condition=None)
            sync_from_solver(env, solver)
            if st2 == "raise" and not (isinstance(r2, ValueError) and "time_discretization" in str(r2)):
                O.fail("second-run:no-unexpected-exception", props=props, note=f"{type(r2).__name__}: {r2}")
            O.cover("second-run-done")
            return
        g = env.ghost
        grid = g.get("grid")
        ex = g.get("loop_exit")
        e = g.get("run_entry")
        log = env.log
        if grid is None or grid.N is None or e is None:
            O.fail("run:loop-over-the-time-grid-reached", props=props)
            return
        pre_loop = log[: g["run_entry_log"]]
        pre_calls = [x[1] if x[0] == "call" else x[0] for x in pre_loop]
        if fresh:
            O.prove("fresh:initial-instant-recorded-once-before-the-loop(no stop check at the initial instant)",
                    pre_calls == ["_compute_powertrain_inertia", "update_time", "_compute_powertrain_variables"],
                    props=("C11", "C16", "C17"), note=f"{pre_calls}")
            O.prove("fresh:time-starts-at-0", z3.And(e["tlen"] == 1, e["tlast_val"] == 0),
                    props=("C11",))
            # C12 (reset/rerun with the same solver object): the first instant of a fresh run must not see the lock state
            # an earlier run left behind (Powertrain.reset cannot clear it: it lives in the Solver)
            first_vars_locked = g.get("locked_at_first_instant")
            O.prove("fresh:lock-state-of-an-earlier-run-is-not-carried-into-a-fresh-run",
                    L.Via([z3.Implies(z3.Not(old["self_locking"]), z3.Not(old["locked"]))],
                          z3.Not(first_vars_locked)) if first_vars_locked is not None else False, props=("C12", "C13"))
        else:
            O.prove("continuation:no-re-initialisation(only the equivalent inertia is recomputed)",
                    pre_calls == ["_compute_powertrain_inertia"], props=("C12",), note=f"{pre_calls}")
            ch = [f for f in e.changed_since(old) if f != "Jeq"]
            O.prove("continuation:state-at-loop-entry=state-left-by-the-previous-run", not ch, props=("C12",), note=f"{ch}")
            O.prove("continuation:equivalent-inertia-recomputed-to-the-same-value",
                    e["Jeq_val"] == old["Jeq_val"],
                    props=("C12",))
        # grid (C11/C12)
        t0 = e["tlast_val"]                                                # SI time of the last instant before the loop
        fdt = env.fac("Time", AM.unit_idx("Time", dt.unit))
        for nm, fact in getattr(grid, "named", {}).items():
            O.prove(f"grid:{nm}", fact, props=("C11", "C12", "C07"))
        Nr = z3.ToReal(grid.N)
        K = z3.Int("Ksteps")
        exactN = z3.And(K >= 1, TT == z3.ToReal(K) * DT)
        F_N = L.Via(list(grid.count_facts), z3.Implies(exactN, grid.N == K))
        O.prove("grid:T=K*dt=>exactly-K-instants-requested", F_N, props=("C11",))
        for name, gl in run_state_inv(env).items():
            O.prove(f"ensures:RunInv[{name}]", gl, props=_props_of(name))
        if ex and ex[0] == "break":
            O.cover("exit:break")
            ev = [x for x in log if x[0] == "stop_check"]
            O.prove("stop:run-ended-early=>condition-true-on-the-last-recorded-instant", ev[-1][1] if ev else False, props=("C16",))
            O.prove("stop:nothing-recorded-after-the-instant-that-satisfied-the-condition",
                    bool(ev) and not env.state.changed_since(ev[-1][2]) and log[-1][0] == "stop_check", props=("C16",))
            O.prove("stop:axis-is-a-prefix-of-the-grid", z3.And(env.state["tlen"] <= e["tlen"] + grid.N), props=("C11", "C16"))
            # the axis recorded so far is a prefix of the grid IN ITS VALUES too: the two time conjuncts of the run invariant hold
            # at the exit by `break` exactly as they would at the start of the next iteration (same cut as in inv-preserved)
            li = g.get("loop_index")
            if li is not None and li[0] == RUN_LOOP:
                nxt = inv_run(env, li[2].next(li[1]), False)
                for nm in ("C11:instants-counted", "C11:last-instant=previous+k*dt(SI)"):
                    O.prove(f"stop:at-the-early-exit[{nm}]", nxt[nm], props=("C11", "C12", "C16"))
        else:
            O.cover("exit:exhausted")
            stf = env.state
            O.prove("grid:all-requested-instants-recorded", stf["tlen"] == e["tlen"] + grid.N, props=("C11",))
            facts = [F_N, stf["tlast_val"] == t0 + Nr * DT]
            O.prove("grid:T=K*dt=>last-instant=previous+T-and-none-beyond",
                    L.Via(facts, z3.Implies(exactN, stf["tlast_val"] == t0 + TT)), props=("C11", "C12", "C07"))
            O.prove("grid:instants-carry-dt's-unit", z3.Implies(grid.N >= 1, stf["tlast_unit"] == AM.unit_idx("Time", dt.unit)), props=("C11",))

    tag = ("fresh" if fresh else "continuation") + (",stop" if with_stop else "") + (",control" if with_control else "")
    if then_continue:
        return Job(f"solver.run[{tag},then-a-second-run-on-the-same-solver]", body, props, functions=[f"{Q}.run"],
                   expect_covers=("returns", "second-run-done"), meta=dict(family="solver-run", fresh=fresh, with_stop=False, with_control=False))
    return Job(f"solver.run[{tag}]", body, props, functions=[f"{Q}.run"],
               expect_covers=("returns", "exit:exhausted") + (("exit:break",) if with_stop else ()),
               meta=dict(family="solver-run", fresh=fresh, with_stop=with_stop, with_control=with_control,
                         thorough_only=(with_stop != with_control)))


def job_run_order(fresh, locked_case):
    """Order of events inside Solver.run with the REAL _compute_powertrain_variables inlined (its callees only log).
    C16: the stop condition is evaluated exactly once per computed instant, AFTER that instant's state has been
    computed and recorded, never at the initial instant; the loop continues iff it was false.  C14/C02/C13 call
    order inside an instant.  Order properties do not depend on data, so logging stubs are sufficient here."""
    props = ("C16", "C17", "C14", "C02")
    STEPS = ["_compute_angular_position_and_speed", "_check_powertrain_is_locked",
             "_compute_locked_powertrain_angular_speed_and_acceleration", "_compute_load_torque", "_compute_driving_torque",
             "_compute_torque", "_compute_angular_acceleration", "_compute_force", "_compute_stress",
             "_compute_electric_current", "_update_time_variables", "_compute_powertrain_inertia", "_time_integration"]

    def body(c, O):
        if c.concrete:
            return
        env, solver = make_env(c)
        st = env.state
        log = env.log
        for name in STEPS:
            def mk(nm):
                def stub(*a, **k):
                    log.append(("call", nm))
                    if nm == "_check_powertrain_is_locked":
                        solver._Solver__powertrain_is_locked = locked_case
                return stub
            setattr(solver, name, mk(name))
        dt = H.mkq(c, "TimeInterval", "dt")
        T = H.mkq(c, "TimeInterval", "T")
        env.ghost["run_dt"] = dt
        env.ghost["run_T"] = T
        env.ghost["arange_facts"] = [env.fac("Time", AM.unit_idx("Time", dt.unit)) > 0, dt.si() > 0]
        c.assume(extp(env, env.n - 1))
        c.assume(AM.ElemRef(env, env.n - 1)._in(AM.HAS_STRESS))
        c.assume(st["tlen"] == 0 if fresh else st["tlen"] >= 1)
        solver._Solver__powertrain_is_locked = False
        inst0 = ["_compute_angular_position_and_speed", "_check_powertrain_is_locked"] + \
            (["_compute_locked_powertrain_angular_speed_and_acceleration"] if locked_case else []) + \
            ["_compute_load_torque", "apply_rules", "_compute_driving_torque", "_compute_torque"] + \
            ([] if locked_case else ["_compute_angular_acceleration"]) + \
            ["_compute_force", "_compute_stress", "_compute_electric_current", "_update_time_variables"]
        env.ghost["order_expected"] = ["update_time", "_time_integration"] + inst0 + ["stop_check"]
        env.ghost["order_held"] = locked_case
        loops.LOOP_SPECS[RUN_LOOP + "/order"] = loops.LoopSpec(RUN_LOOP, lambda env_, i, entry: _order_inv(env_, i, entry), ("tlen", "tlast", "pwm"))
        saved = loops.LOOP_SPECS[RUN_LOOP]
        loops.LOOP_SPECS[RUN_LOOP] = loops.LOOP_SPECS[RUN_LOOP + "/order"]
        try:
            mc = AbsMotorControl(env)
            stop = AbsStop(env)
            st_, r = H.call(solver.run, time_discretization=dt, simulation_time=T, motor_control=mc, stop_condition=stop)
        finally:
            loops.LOOP_SPECS[RUN_LOOP] = saved
        if st_ == "raise":
            if isinstance(r, ValueError):
                O.cover("raises:ValueError")
                return
            O.fail("order:no-unexpected-exception", props=props, note=f"{type(r).__name__}: {r}")
            return
        O.cover("returns")
        g = env.ghost
        ev = [(e[1] if e[0] == "call" else e[0]) for e in log]
        k0 = g.get("order_entry_log", 0)
        pre, body_ev = ev[:k0], ev[g.get("order_body_start", k0):]
        inst = ["_compute_angular_position_and_speed", "_check_powertrain_is_locked"] + \
            (["_compute_locked_powertrain_angular_speed_and_acceleration"] if locked_case else []) + \
            ["_compute_load_torque", "apply_rules", "_compute_driving_torque", "_compute_torque"] + \
            ([] if locked_case else ["_compute_angular_acceleration"]) + \
            ["_compute_force", "_compute_stress", "_compute_electric_current", "_update_time_variables"]
        if fresh:
            ok0 = pre[:1] == ["_compute_powertrain_inertia"] and pre.count("update_time") == 1 and "stop_check" not in pre and \
                "_time_integration" not in pre and all(ok for _, ok in instant_order(pre[pre.index("update_time") + 1:] if "update_time" in pre else [], locked_case, True))
            O.prove("order:initial-instant=inertia,update_time,one-full-instant,no-stop-check", ok0, props=props, note=f"{pre}")
        else:
            O.prove("order:continuation-starts-with-the-inertia-only", pre == ["_compute_powertrain_inertia"], props=("C12", "C16"), note=f"{pre}")
        ex = g.get("loop_exit")
        if body_ev:
            O.cover("iteration")
            O.prove("order:iteration=update_time,integrate,one-full-instant(recorded),then-exactly-one-stop-check",
                    iteration_ok(body_ev, locked_case), props=props, note=f"{body_ev}")
            last_stop = [e for e in log if e[0] == "stop_check"]
            if ex and ex[0] == "break":
                O.cover("break")
                O.prove("order:break=>the-check-was-true", last_stop[-1][1] if last_stop else False, props=("C16",))
        else:
            O.cover("no-iteration")
    tag = ("fresh" if fresh else "continuation") + (",held" if locked_case else ",not-held")
    return Job(f"solver.run-order[{tag}]", body, props + ("C12", "C13"), functions=[f"{Q}.run", f"{Q}._compute_powertrain_variables",
                                                                           f"{Q}._compute_motor_control"],
               expect_covers=("returns", "iteration", "break"), meta=dict(family="solver-run"))


def iteration_ok(ev, held):
    """one loop iteration: the instant is appended to the axis and integrated first, then one full instant is computed
    and recorded, then -- and only then -- the stop condition is evaluated exactly once"""
    if ev[:1] != ["update_time"] or ev.count("update_time") != 1 or ev.count("_time_integration") != 1 or ev.count("stop_check") != 1:
        return False
    if ev[-1] != "stop_check" or ev.index("_time_integration") != 1:
        return False
    return all(ok for _, ok in instant_order(ev[2:-1], held, True))


def _order_inv(env, i, entry):
    """pseudo-invariant of the order job: it only observes the ghost log at the three points vcloop evaluates it
    (entry; loop head of the arbitrary iteration; end of that iteration when the body completed without break)"""
    g = env.ghost
    c = sym.ctx()
    if entry:
        g["order_entry_log"] = len(env.log)
        g["order_calls"] = 0
        return {"true": z3.BoolVal(True)}
    g["order_calls"] += 1
    if g["order_calls"] == 1:
        g["order_body_start"] = len(env.log)
    elif g["order_calls"] == 2 and "order_expected" in g:
        ev = [(e[1] if e[0] == "call" else e[0]) for e in env.log[g["order_body_start"]:]]
        stops = [e for e in env.log[g["order_body_start"]:] if e[0] == "stop_check"]
        c.prove_in_path("order:iteration-without-break=update_time,integrate,one-full-instant(recorded),then-exactly-one-stop-check",
                        iteration_ok(ev, g["order_held"]), note=f"{ev}")
        c.prove_in_path("order:continue=>the-check-was-false", z3.Not(stops[-1][1]) if len(stops) == 1 else False)
    return {"true": z3.BoolVal(True)}


def _props_of(name):
    for p in ("C01", "C02", "C03", "C13", "C14", "C17"):
        if name.startswith(p):
            return (p,)
    return ("C01", "C02", "C03", "C11", "C12", "C13", "C17")


def job_run_body(with_stop, with_control):
    """One arbitrary iteration of run's loop (the inductive step of the history invariant) is checked inside
    solver.run[...] as `...run#0:inv-preserved[...]`; this job checks the ORDER of the body and the step relation
    of C03 on that iteration by running the real loop body once from an arbitrary RunInv state."""
    return None


def all_jobs(exact_tables=None):
    jobs = [job_method(ct) for ct in CONTRACTS]
    jobs.append(job_jred_positive())
    jobs.append(job_vars(False))
    jobs.append(job_vars(True))
    for fresh in (True, False):
        for with_stop in (False, True):
            for with_control in (False, True):
                jobs.append(job_run(fresh, with_stop, with_control))
        for held in (False, True):
            jobs.append(job_run_order(fresh, held))
    jobs.append(job_run(True, False, False, then_continue=True))
    return jobs
