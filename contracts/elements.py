"""contracts.elements -- interface conformance of the six element classes (behavioural subtyping).

The abstract element used at L2 (pycv/absmodel.py ElemRef, contracts/solver.py Iface) assumes, for every class:
  * each quantity attribute setter stores exactly the object it is given when it is of the attribute's kind and
    raises TypeError (state unchanged) otherwise; the getter returns the stored object;
  * update_time_variables appends exactly one sample -- the current attribute object -- to every series the element
    advertises (DCMotor: 'electric current' iff current data, 'pwm' created on first use);
  * master_gear_ratio / master_gear_efficiency setters accept exactly positive floats / numbers in [0, 1].
Here every member is run on a REAL instance of each class (through its super() delegation chain).
Properties: C17 (recording), C01/C02 (setters are the only writers and store what they get), C10 (ratio/efficiency ranges).
"""
from __future__ import annotations

import z3

from pycv import harness as H
from pycv import logic as L
from pycv.explore import Job

from contracts import gears as G
from contracts import motor as CM
from contracts import relations as RL

ATTRS = {"angular_position": "AngularPosition", "angular_speed": "AngularSpeed", "angular_acceleration": "AngularAcceleration",
         "torque": "Torque", "driving_torque": "Torque", "load_torque": "Torque"}
EXTRA = {"tangential_force": "Force", "bending_stress": "Stress", "contact_stress": "Stress", "electric_current": "Current"}
WRONG = {"AngularPosition": "AngularSpeed", "AngularSpeed": "AngularPosition", "AngularAcceleration": "Torque", "Torque": "Force",
         "Force": "Torque", "Stress": "Force", "Current": "Torque"}


def patch_worker():
    RL.patch_worker()


def make_full(c, cls):
    if cls == "DCMotor":
        b = CM.build_motor(c, RL._Quiet(), True)
        return b[0] if b else None
    if cls == "Flywheel":
        return RL.make(c, None, "Flywheel", "el")[0]
    kw = dict(refdiam=True) if cls == "WormGear" else dict(module=True, face=True, **({"elastic": True} if cls in ("SpurGear", "HelicalGear") else {}))
    return G.build(c, RL._Quiet(), cls, tag="el", check=False, literal_helix=True, **kw)[0]


def job_setters(cls):
    def body(c, O):
        if c.concrete:
            return
        e = make_full(c, cls)
        if e is None:
            return
        names = dict(ATTRS)
        for a, k in EXTRA.items():
            if hasattr(type(e), a) and getattr(type(e), a).fset is not None:
                names[a] = k
        for a, kind in names.items():
            good = H.mkq(c, kind, f"v_{a}", valid=False)
            before = dict(e.__dict__)
            st, r = H.call(setattr, e, a, good)
            O.prove(f"setter[{a}]:stores-the-given-{kind}-object;getter-returns-it", st == "ok" and getattr(e, a) is good, props=("C17", "C01", "C02"))
            changed = [k for k, v in e.__dict__.items() if before.get(k, None) is not v]
            O.prove(f"setter[{a}]:writes-only-its-own-field", len(changed) == 1, props=("C01", "C02", "C17"), note=f"{changed}")
            bad = H.mkq(c, WRONG[kind], f"w_{a}", valid=False)
            before = dict(e.__dict__)
            st, r = H.call(setattr, e, a, bad)
            O.prove(f"setter[{a}]:wrong-kind=>TypeError-and-unchanged",
                    st == "raise" and isinstance(r, TypeError) and all(e.__dict__[k] is v for k, v in before.items()), props=("C17", "C19"))
        O.cover("done")
    return Job(f"elements.setters[{cls}]", body, ("C17", "C01", "C02", "C19"),
               functions=[f"gearpy.mechanical_objects.{G._mod(cls)}.{cls}.<quantity setters/getters>",
                          "gearpy.mechanical_objects.mechanical_object_base.RotatingObject.<quantity setters>"],
               expect_covers=("done",), meta=dict(family="element-iface", cls=cls))


def job_record_motor(with_current):
    def body(c, O):
        if c.concrete:
            return
        b = CM.build_motor(c, RL._Quiet(), with_current)
        if b is None:
            return
        m = b[0]
        adv = list(m.time_variables.keys())
        want = list(G.BASE_KEYS) + (["electric current"] if with_current else [])
        O.prove("advertised:base-six(+electric current iff current data)", adv == want, props=("C17",), note=f"{adv}")
        D = c.real("D")
        c.assume(z3.And(D.term >= -1, D.term <= 1))
        m.pwm = D
        for k in range(3):
            before = {kk: list(v) for kk, v in m.time_variables.items()}
            st, r = H.call(m.update_time_variables)
            if st == "raise":
                O.fail("record:update_time_variables-no-exception", props=("C17",), note=repr(r))
                return
            tv = m.time_variables
            O.prove(f"record[{k}]:every-series-grew-by-exactly-one(pwm created on first use)",
                    sorted(tv.keys()) == sorted(want + ["pwm"]) and all(len(tv[v]) == k + 1 for v in tv), props=("C17",),
                    note=f"{ {v: len(s) for v, s in tv.items()} }")
            O.prove(f"record[{k}]:samples-are-the-current-attributes", tv["pwm"][-1] is D and tv["angular speed"][-1] is m.angular_speed and
                    (not with_current or tv["electric current"][-1] is m.electric_current), props=("C17",))
        O.cover("done")
    tag = "with-current-data" if with_current else "without-current-data"
    return Job(f"elements.record[DCMotor,{tag}]", body, ("C17",),
               functions=["gearpy.mechanical_objects.dc_motor.DCMotor.update_time_variables"], expect_covers=("done",),
               meta=dict(family="element-iface", cls="DCMotor"))


def job_record_flywheel():
    def body(c, O):
        if c.concrete:
            return
        f = make_full(c, "Flywheel")
        if f is None:
            return
        O.prove("advertised:base-six", list(f.time_variables.keys()) == list(G.BASE_KEYS), props=("C17",))
        for k in range(2):
            st, r = H.call(f.update_time_variables)
            O.prove(f"record[{k}]:every-series-grew-by-exactly-one", st == "ok" and all(len(s) == k + 1 for s in f.time_variables.values()),
                    props=("C17",))
        O.cover("done")
    return Job("elements.record[Flywheel]", body, ("C17",), functions=["gearpy.mechanical_objects.flywheel.Flywheel.update_time_variables"],
               expect_covers=("done",), meta=dict(family="element-iface", cls="Flywheel"))


def job_ratio_setters(cls):
    def body(c, O):
        if c.concrete:
            return
        e = make_full(c, cls)
        if e is None:
            return
        r = c.real("ratio")
        st, ex = H.call(setattr, e, "master_gear_ratio", r)
        if st == "ok":
            O.cover("ratio-accepted")
            O.prove("master_gear_ratio:accepted-only-if-positive", L.gt(r, 0), props=("C10", "C01"))
        else:
            O.cover("ratio-rejected")
            O.prove("master_gear_ratio:ValueError-only-if-not-positive", L.And(isinstance(ex, ValueError), L.le(r, 0)), props=("C10",))
        ri = c.real("ratio_int", pytype="int")
        st, ex = H.call(setattr, e, "master_gear_ratio", ri)
        O.prove("master_gear_ratio:an-int-is-rejected(TypeError)", st == "raise" and isinstance(ex, TypeError), props=("C10",))
        if cls != "Flywheel":
            ef = c.real("eff")
            st, ex = H.call(setattr, e, "master_gear_efficiency", ef)
            if st == "ok":
                O.cover("eff-accepted")
                O.prove("master_gear_efficiency:accepted-only-within-[0,1]", L.And(L.ge(ef, 0), L.le(ef, 1)), props=("C10", "C02"))
            else:
                O.cover("eff-rejected")
                O.prove("master_gear_efficiency:ValueError-only-outside-[0,1]", L.And(isinstance(ex, ValueError), L.Or(L.lt(ef, 0), L.gt(ef, 1))), props=("C10",))
    return Job(f"elements.ratio-setters[{cls}]", body, ("C10", "C01", "C02"),
               functions=[f"gearpy.mechanical_objects.{G._mod(cls)}.{cls}.master_gear_ratio", f"gearpy.mechanical_objects.{G._mod(cls)}.{cls}.master_gear_efficiency"],
               meta=dict(family="element-iface", cls=cls))


def all_jobs(exact_tables=None):
    jobs = [job_setters(cls) for cls in ("DCMotor", "Flywheel", "SpurGear", "HelicalGear", "WormGear", "WormWheel")]
    jobs += [job_record_motor(True), job_record_motor(False), job_record_flywheel()]
    jobs += [job_ratio_setters(cls) for cls in ("Flywheel", "SpurGear", "HelicalGear", "WormGear", "WormWheel")]
    return jobs
