"""contracts.relations -- gearpy.utils.relations (C10) and Powertrain.__init__ (C20).

Real element objects (built by their real constructors from abstract quantities), every ordered pair of the six
element classes, the aliasing case master-is-slave, fresh and re-declared prior relation state.
Exceptional postcondition (property C10): a rejected call leaves both elements' attribute dictionaries unchanged.
"""
from __future__ import annotations

import z3

from pycv import absunits as AU
from pycv import harness as H
from pycv import logic as L
from pycv import sym
from pycv.explore import Job
from pycv.sym import EngineError
from pycv.sym import SymNum

from contracts import gears as G
from contracts import motor as CM

MOD = "gearpy.utils.relations"
CLASSES = ["DCMotor", "Flywheel", "SpurGear", "HelicalGear", "WormGear", "WormWheel"]
GEARBASE = {"SpurGear", "HelicalGear", "WormWheel"}
HELICAL = {"HelicalGear", "WormWheel"}
_PATCHED = [False]


def patch_worker():
    if _PATCHED[0]:
        return
    _PATCHED[0] = True
    G.patch_worker()
    CM.patch_worker()
    from pycv import patch
    import gearpy.utils.relations  # noqa: F401
    import gearpy.powertrain as PT
    patch.PATCH_LOG.extend(H.stub_unit_classes([MOD, "gearpy.powertrain"]))


def rel():
    import gearpy.utils.relations as R
    return R


def make(c, O, cls, tag, pa=1):
    """a real element of class `cls` (constructor accepted)"""
    if cls == "DCMotor":
        b = CM.build_motor(c, _Quiet(), True)
        return (b[0], dict()) if b else (None, {})
    if cls == "Flywheel":
        J = H.mkq(c, "InertiaMoment", f"{tag}_J")
        st, r = H.call(G.classes()["Flywheel"], name=tag, inertia_moment=J)
        return (r if st == "ok" else None), dict(J=J)
    kw = dict(module=True, face=False)
    if cls in ("SpurGear", "HelicalGear"):
        kw["elastic"] = False
    if cls == "WormGear":
        kw = dict(refdiam=False)
    g, q = G.build(c, _Quiet(), cls, tag=tag, pa=pa, check=False, **kw)
    return g, q


class _Quiet:
    def prove(self, *a, **k):
        pass

    def cover(self, *a, **k):
        pass

    def fail(self, *a, **k):
        pass


def owner(cls):
    return {"DCMotor": "_MotorBase", "Flywheel": "_Flywheel", "WormGear": "_WormGear"}.get(cls, "_GearBase")


REL_FIELDS = ("drives", "driven_by", "mating_role", "master_gear_ratio", "master_gear_efficiency", "self_locking")


def redeclare(c, obj, cls, tag):
    """arbitrary earlier relation state (any declaration sequence is covered by induction over calls), written through the
    element's PUBLIC setters"""
    other = G.Mate(name=f"earlier-{tag}")
    import gearpy.mechanical_objects as M
    T = type(obj)

    def has(name):
        p_ = getattr(T, name, None)
        return isinstance(p_, property) and p_.fset is not None
    if has("drives"):
        G._set(obj, "drives", other)
    if has("driven_by"):
        G._set(obj, "driven_by", other)
    if has("mating_role"):
        G._set(obj, "mating_role", M.MatingSlave if tag == "master" else M.MatingMaster)
    if has("master_gear_ratio"):
        r = c.real(f"{tag}_old_ratio")
        c.assume(L.gt(r, 0))
        G._set(obj, "master_gear_ratio", r)
    if has("master_gear_efficiency"):
        e = c.real(f"{tag}_old_eff")
        c.assume(L.And(L.ge(e, 0), L.le(e, 1)))
        G._set(obj, "master_gear_efficiency", e)
    if has("self_locking"):
        G._set(obj, "self_locking", True if tag == "master" else False)


def snapshot(obj):
    return dict(obj.__dict__)


def unchanged(obj, snap):
    now = obj.__dict__
    return set(now) == set(snap) and all(now[k] is snap[k] for k in snap)


def changed_keys(obj, snap):
    now = obj.__dict__
    return sorted(k for k in set(now) | set(snap) if now.get(k, None) is not snap.get(k, None))


def getf(obj, cls, field):
    """the element's PUBLIC property (None if its class has none): nothing here depends on private attribute names"""
    try:
        return getattr(obj, field, None)
    except (TypeError, ValueError, AttributeError):
        return None


RELATION_PROPERTIES = ("drives", "driven_by", "mating_role", "master_gear_ratio", "master_gear_efficiency", "self_locking")


def public_state(obj):
    """every public property of the element that is not a relation field (read through the public API)"""
    out = {}
    for name in dir(type(obj)):
        if name.startswith("_") or name in RELATION_PROPERTIES or not isinstance(getattr(type(obj), name, None), property):
            continue
        try:
            out[name] = getattr(obj, name)
        except Exception as e:      # noqa: BLE001
            out[name] = ("raises", type(e).__name__)
    return out


def same_public_state(obj, before):
    now = public_state(obj)
    return set(now) == set(before) and all(now[k] is before[k] or (not sym.is_sym(now[k]) and not sym.is_sym(before[k]) and type(now[k]) is type(before[k])
                                                                   and now[k] == before[k]) for k in before)


def num_ok(x, lo, hi):
    return L.And(L.le(lo, x), L.le(x, hi))


# ---- add_gear_mating --------------------------------------------------------------------------------------------------

def job_gear_mating(Mc, Sc, alias=False, prior="fresh"):
    def body(c, O):
        import gearpy.mechanical_objects as M
        m, qm = make(c, O, Mc, "master")
        if m is None:
            return
        if alias:
            s, qs = m, qm
        else:
            s, qs = make(c, O, Sc, "slave")
            if s is None:
                return
        if prior == "re-declared":
            redeclare(c, m, Mc, "master")
            if not alias:
                redeclare(c, s, Sc, "slave")
        eff = c.real("efficiency")
        sm, ss = snapshot(m), snapshot(s)
        pm, ps = public_state(m), public_state(s)
        st, r = H.call(rel().add_gear_mating, master=m, slave=s, efficiency=eff)
        types_ok = Mc in GEARBASE and Sc in GEARBASE
        # incompatibilities of the property statement
        conds_reject = []          # definitely incompatible (beyond the comparison tolerance)
        conds_accept = []          # definitely compatible
        if types_ok and not alias:
            conds_accept.append(num_ok(eff, 0, 1))
            conds_reject.append(L.Or(L.lt(eff, 0), L.gt(eff, 1)))
            if "m" in qm and "m" in qs:
                band = L.mul(2 * AU.TOL, L.add(AU.fac("Length", qm["m"].unit), AU.fac("Length", qs["m"].unit)))
                dm = L.absv(L.sub(H.SI(qm["m"]), H.SI(qs["m"])))
                conds_reject.append(L.gt(dm, band))
                conds_accept.append(L.eq(H.SI(qm["m"]), H.SI(qs["m"])))
            if (Mc in HELICAL) != (Sc in HELICAL):
                conds_reject.append(True)
                conds_accept.append(False)
            elif Mc in HELICAL:
                band = L.mul(2 * AU.TOL, L.add(AU.fac("Angle", qm["beta"].unit), AU.fac("Angle", qs["beta"].unit)))
                db = L.absv(L.sub(H.SI(qm["beta"]), H.SI(qs["beta"])))
                conds_reject.append(L.gt(db, band))
                conds_accept.append(L.eq(H.SI(qm["beta"]), H.SI(qs["beta"])))
        if st == "raise":
            O.cover("rejected")
            O.prove("rejected:both-elements-unmodified", unchanged(m, sm) and unchanged(s, ss), props=("C10",),
                    note=f"{type(r).__name__}: {r}; changed {changed_keys(m, sm)} {changed_keys(s, ss)}")
            if not types_ok:
                O.prove("rejected:non-gear=>TypeError-or-ValueError", isinstance(r, (TypeError, ValueError)), props=("C10",), note=repr(r))
            elif alias:
                O.prove("rejected:element-with-itself=>TypeError-or-ValueError", isinstance(r, (TypeError, ValueError)), props=("C10",), note=repr(r))
            else:
                O.prove("rejected:only-for-a-listed-incompatibility", L.Not(L.And(*conds_accept)) if conds_accept else False,
                        props=("C10",), note=f"{type(r).__name__}: {r}")
            return
        O.cover("accepted")
        O.prove("accepted:only-compatible-pairs", types_ok and not alias and L.Not(L.Or(*conds_reject)) if True else True,
                props=("C10",))
        if not (types_ok and not alias):
            return
        O.prove("accepted:mutual-links", getf(m, Mc, "drives") is s and getf(s, Sc, "driven_by") is m, props=("C10", "C20"))
        O.prove("accepted:roles", getf(m, Mc, "mating_role") is M.MatingMaster and getf(s, Sc, "mating_role") is M.MatingSlave, props=("C10", "C09"))
        ratio = getf(s, Sc, "master_gear_ratio")
        O.prove("accepted:ratio=slave-teeth/master-teeth", L.eq(L.mul(ratio, qm["n"]), qs["n"]), props=("C10", "C01"))
        O.prove("accepted:ratio>0", L.gt(ratio, 0), props=("C10", "C01"))
        e2 = getf(s, Sc, "master_gear_efficiency")
        O.prove("accepted:efficiency=argument-in-[0,1]", L.And(e2 is eff or L.eq(e2, eff), num_ok(e2, 0, 1)), props=("C10", "C02"))
        O.prove("accepted:modifies-only-the-relation-fields", same_public_state(m, pm) and same_public_state(s, ps), props=("C10",),
                note=f"changed {changed_keys(m, sm)} {changed_keys(s, ss)}")
    tag = f"{Mc}->{'itself' if alias else Sc},{prior}"
    return Job(f"relations.add_gear_mating[{tag}]", body, ("C10", "C01", "C02", "C20"), functions=[f"{MOD}.add_gear_mating"],
               meta=dict(family="relation", fn="gear", Mc=Mc, Sc=Sc))


# ---- add_fixed_joint -------------------------------------------------------------------------------------------------------

def job_fixed_joint(Mc, Sc, alias=False, prior="fresh"):
    def body(c, O):
        m, qm = make(c, O, Mc, "master")
        if m is None:
            return
        if alias:
            s = m
        else:
            s, qs = make(c, O, Sc, "slave")
            if s is None:
                return
        if prior == "re-declared":
            redeclare(c, m, Mc, "master")
            if not alias:
                redeclare(c, s, Sc, "slave")
        sm, ss = snapshot(m), snapshot(s)
        pm, ps = public_state(m), public_state(s)
        st, r = H.call(rel().add_fixed_joint, master=m, slave=s)
        ok_pair = Sc != "DCMotor" and not alias
        if st == "raise":
            O.cover("rejected")
            O.prove("rejected:both-elements-unmodified", unchanged(m, sm) and unchanged(s, ss), props=("C10",),
                    note=f"{type(r).__name__}: {r}; changed {changed_keys(m, sm)} {changed_keys(s, ss)}")
            O.prove("rejected:only-motor-as-slave-or-element-with-itself", not ok_pair, props=("C10",), note=repr(r))
            return
        O.cover("accepted")
        O.prove("accepted:only-compatible-pairs", ok_pair, props=("C10",))
        if not ok_pair:
            return
        O.prove("accepted:mutual-links", getf(m, Mc, "drives") is s and getf(s, Sc, "driven_by") is m, props=("C10", "C20"))
        ratio = getf(s, Sc, "master_gear_ratio")
        O.prove("accepted:ratio-exactly-1", isinstance(ratio, float) and ratio == 1.0, props=("C10", "C01"))
        O.prove("accepted:modifies-only-the-relation-fields", same_public_state(m, pm) and same_public_state(s, ps), props=("C10",),
                note=f"changed {changed_keys(m, sm)} {changed_keys(s, ss)}")
    tag = f"{Mc}->{'itself' if alias else Sc},{prior}"
    return Job(f"relations.add_fixed_joint[{tag}]", body, ("C10", "C01", "C20"), functions=[f"{MOD}.add_fixed_joint"],
               meta=dict(family="relation", fn="joint", Mc=Mc, Sc=Sc))


# ---- add_worm_gear_mating ------------------------------------------------------------------------------------------------

def job_worm_mating(Mc, Sc, pa_m=1, pa_s=1, alias=False, prior="fresh"):
    def body(c, O):
        if c.concrete:
            return
        import gearpy.mechanical_objects as M
        m, qm = make(c, O, Mc, "master", pa=pa_m)
        if m is None:
            return
        if alias:
            s, qs = m, qm
        else:
            s, qs = make(c, O, Sc, "slave", pa=pa_s)
            if s is None:
                return
        if prior == "re-declared":
            redeclare(c, m, Mc, "master")
            if not alias:
                redeclare(c, s, Sc, "slave")
        f = c.real("friction")
        sm, ss = snapshot(m), snapshot(s)
        pm, ps = public_state(m), public_state(s)
        st, r = H.call(rel().add_worm_gear_mating, master=m, slave=s, friction_coefficient=f)
        pair_ok = {Mc, Sc} == {"WormGear", "WormWheel"} and not alias
        UF = sym.UF
        if pair_ok:
            worm_drives = Mc == "WormGear"
            worm_q = qm if worm_drives else qs
            a = sym.term_of(H.SI(qm["alpha"]))
            bm = sym.term_of(H.SI(qm["beta"]))          # the documented formula is evaluated with the master's helix angle
            bw = sym.term_of(H.SI(worm_q["beta"]))
            ft = f.term
            if worm_drives:
                eta = (UF["cos"](a) - ft * UF["tan"](bm)) / (UF["cos"](a) + ft / UF["tan"](bm))
            else:
                eta = (UF["cos"](a) - ft / UF["tan"](bm)) / (UF["cos"](a) + ft * UF["tan"](bm))
            physical = z3.And(ft >= 0, ft <= 1, pa_m == pa_s, UF["tan"](bm) != 0, eta >= 0, eta <= 1)
        if st == "raise":
            O.cover("rejected")
            O.prove("rejected:both-elements-unmodified", unchanged(m, sm) and unchanged(s, ss), props=("C10",),
                    note=f"{type(r).__name__}: {r}; changed {changed_keys(m, sm)} {changed_keys(s, ss)}")
            if not pair_ok:
                O.prove("rejected:not-a-worm/wheel-pair=>TypeError-or-ValueError", isinstance(r, (TypeError, ValueError)), props=("C10",), note=repr(r))
            else:
                O.prove("rejected:only-for-a-listed-incompatibility(or-efficiency-outside-[0,1])", z3.Not(physical), props=("C10",),
                        note=f"{type(r).__name__}: {r}")
            return
        O.cover("accepted")
        O.prove("accepted:only-worm/wheel-pairs", pair_ok, props=("C10",))
        if not pair_ok:
            return
        O.prove("accepted:friction-in-[0,1]-and-equal-pressure-angles", z3.And(ft >= 0, ft <= 1, pa_m == pa_s), props=("C10",))
        O.prove("accepted:mutual-links", getf(m, Mc, "drives") is s and getf(s, Sc, "driven_by") is m, props=("C10", "C20"))
        O.prove("accepted:roles", getf(m, Mc, "mating_role") is M.MatingMaster and getf(s, Sc, "mating_role") is M.MatingSlave, props=("C10", "C09"))
        ratio = getf(s, Sc, "master_gear_ratio")
        if worm_drives:
            O.prove("accepted:ratio=wheel-teeth/worm-starts", L.eq(L.mul(ratio, qm["starts"]), qs["n"]), props=("C10", "C01"))
        else:
            O.prove("accepted:ratio=worm-starts/wheel-teeth(inverse)", L.eq(L.mul(ratio, qm["n"]), qs["starts"]), props=("C10", "C01"))
        O.prove("accepted:ratio>0", L.gt(ratio, 0), props=("C10", "C01"))
        e2 = getf(s, Sc, "master_gear_efficiency")
        O.prove("accepted:efficiency=documented-friction-formula", sym.term_of(e2) == eta, props=("C10", "C02"))
        O.prove("accepted:efficiency-in-[0,1]", num_ok(e2, 0, 1), props=("C10", "C02"))
        worm = m if worm_drives else s
        sl = worm.self_locking
        O.prove("accepted:worm-self-locking-iff-f>cos(alpha)*tan(beta)",
                L.Iff(L.truth(sl), ft > UF["cos"](a) * UF["tan"](bw)), props=("C10", "C13"))
        O.prove("accepted:modifies-only-the-relation-fields", same_public_state(m, pm) and same_public_state(s, ps), props=("C10",),
                note=f"changed {changed_keys(m, sm)} {changed_keys(s, ss)}")
    pas = f",alpha={G.PRESSURE_ANGLES_DEG[pa_m]}/{G.PRESSURE_ANGLES_DEG[pa_s]}" if {Mc, Sc} <= {"WormGear", "WormWheel"} else ""
    tag = f"{Mc}->{'itself' if alias else Sc}{pas},{prior}"
    return Job(f"relations.add_worm_gear_mating[{tag}]", body, ("C10", "C01", "C02", "C13", "C20"),
               functions=[f"{MOD}.add_worm_gear_mating", "gearpy.mechanical_objects.worm_gear.WormGear.self_locking",
                          "gearpy.mechanical_objects.mechanical_object_base.GearBase.master_gear_efficiency",
                          "gearpy.mechanical_objects.mechanical_object_base.GearBase.master_gear_ratio"],
               meta=dict(family="relation", fn="worm", Mc=Mc, Sc=Sc, worm_pair={Mc, Sc} == {"WormGear", "WormWheel"} and not alias))



# =====================================================================================================
# C20: Powertrain.__init__ = the drive chain reachable from the motor
# =====================================================================================================

def _bare(c, cls, name):
    """a real element built by its REAL constructor from literal data (the data are irrelevant to Powertrain.__init__);
    links and flags are then set through the public setters, so nothing here depends on private attribute names"""
    C = G.classes()[cls]
    J = H.lit(c, "InertiaMoment", 1, "kgm^2")
    if cls == "DCMotor":
        kw = dict(name=name, inertia_moment=J, no_load_speed=H.lit(c, "AngularSpeed", 100, "rad/s"), maximum_torque=H.lit(c, "Torque", 1, "Nm"))
    elif cls == "Flywheel":
        kw = dict(name=name, inertia_moment=J)
    elif cls == "SpurGear":
        kw = dict(name=name, n_teeth=20, inertia_moment=J)
    elif cls == "HelicalGear":
        kw = dict(name=name, n_teeth=20, inertia_moment=J, helix_angle=H.lit(c, "Angle", 20, "deg"))
    elif cls == "WormWheel":
        kw = dict(name=name, n_teeth=20, inertia_moment=J, helix_angle=H.lit(c, "Angle", 10, "deg"), pressure_angle=G.pressure_angle(c, 1))
    else:
        kw = dict(name=name, n_starts=1, inertia_moment=J, helix_angle=H.lit(c, "Angle", 10, "deg"), pressure_angle=G.pressure_angle(c, 1))
    st, r = H.call(C, **kw)
    if st != "ok":
        raise EngineError(f"harness: {cls}({name!r}) with literal data was rejected by its constructor: {r!r}")
    return r


def job_powertrain(n, worm_mask, names):
    """chain of n elements; worm_mask: set of positions (>=1) that are WormGears; names: tuple of n strings"""
    def body(c, O):
        import gearpy.powertrain as PT
        elems = [_bare(c, "DCMotor", names[0])]
        kinds = ["SpurGear", "HelicalGear", "Flywheel", "WormWheel"]
        flags = {}
        for k in range(1, n):
            if k in worm_mask:
                e = _bare(c, "WormGear", names[k])
                tri = c.real(f"sl{k}", pytype="int")           # 0 None, 1 False, 2 True (mating never declared / not / self-locking)
                if c.concrete:
                    v = int(tri) % 3
                else:
                    c.assume(z3.And(tri.term >= 0, tri.term <= 2))
                    v = 0 if bool(tri == 0) else (1 if bool(tri == 1) else 2)
                if v:
                    e.self_locking = [None, False, True][v]          # v == 0: the mating was never declared (flag still None)
                flags[k] = v
            else:
                e = _bare(c, kinds[k % 4], names[k])
            elems.append(e)
        for a, b in zip(elems, elems[1:]):
            a.drives = b
        # an element that is NOT reachable from the motor (drives into the chain, nobody drives it)
        stray = _bare(c, "SpurGear", "stray")
        stray.drives = elems[-1]
        dup = len(set(names)) < n
        st, r = H.call(PT.Powertrain, elems[0])
        if dup:
            O.prove("duplicate-names=>construction-fails", st == "raise", props=("C20",), note=repr(r))
            return
        if st == "raise":
            O.fail("distinct-names-and-connected-motor=>constructed", props=("C20",), note=repr(r))
            return
        O.cover("constructed")
        O.prove("elements=exactly-the-chain-reachable-from-the-motor-in-order-each-once",
                isinstance(r.elements, tuple) and len(r.elements) == n and all(x is y for x, y in zip(r.elements, elems)), props=("C20", "C01"))
        O.prove("self_locking-iff-some-worm-gear-flagged-self-locking", bool(r.self_locking) == any(v == 2 for v in flags.values()),
                props=("C20", "C13"))
        O.prove("time-axis-starts-empty", r.time == [], props=("C20", "C11"))
        # fixed at assembly: later changes to the elements (a worm gear's flag flipped, links re-declared) change neither
        el0, sl0 = r.elements, bool(r.self_locking)
        for k, v in flags.items():
            elems[k].self_locking = (v != 2)
        if n >= 3:
            elems[-2].drives = stray
        O.prove("fixed-at-assembly:self_locking-unchanged-by-later-changes-to-the-worm-gears", bool(r.self_locking) == sl0, props=("C20", "C13"))
        O.prove("fixed-at-assembly:elements-unchanged-by-later-re-declarations",
                isinstance(r.elements, tuple) and len(r.elements) == n and all(x is y for x, y in zip(r.elements, el0)), props=("C20",))
        for attr in ("elements", "self_locking"):
            stt, e = H.call(setattr, r, attr, ())
            O.prove(f"{attr}-cannot-be-reassigned", stt == "raise", props=("C20",))
    wm = ",".join(map(str, sorted(worm_mask))) or "-"
    dupt = "distinct" if len(set(names)) == n else "dup:" + ",".join(str(i) for i, x in enumerate(names) if names.count(x) > 1)
    return Job(f"powertrain.init[n={n},worms@{wm},{dupt}]", body, ("C20", "C01", "C11", "C13"),
               functions=["gearpy.powertrain.Powertrain.__init__", "gearpy.powertrain.Powertrain.elements",
                          "gearpy.powertrain.Powertrain.self_locking"], meta=dict(family="powertrain-init", n=n))


def job_powertrain_misc():
    def body(c, O):
        import ast
        import inspect
        import gearpy.powertrain as PT
        m = _bare(c, "DCMotor", "m")
        st, r = H.call(PT.Powertrain, m)
        O.prove("motor-drives-nothing=>construction-fails", st == "raise", props=("C20",))
        st, r = H.call(PT.Powertrain, _bare(c, "SpurGear", "g"))
        O.prove("not-a-motor=>construction-fails", st == "raise", props=("C20",))
        O.prove("elements-and-self_locking-are-properties-without-setter",
                isinstance(PT.Powertrain.elements, property) and PT.Powertrain.elements.fset is None and
                isinstance(PT.Powertrain.self_locking, property) and PT.Powertrain.self_locking.fset is None, props=("C20",))
        # frame: no method other than __init__ assigns the two private fields (syntactic scan of the class source)
        src = inspect.getsource(PT.Powertrain)
        tree = ast.parse(src)
        writers = []
        for fn in ast.walk(tree):
            if isinstance(fn, ast.FunctionDef):
                for node in ast.walk(fn):
                    tg = []
                    if isinstance(node, ast.Assign):
                        tg = node.targets
                    elif isinstance(node, (ast.AugAssign, ast.AnnAssign)):
                        tg = [node.target]
                    for t in tg:
                        for sub in ast.walk(t):
                            if isinstance(sub, ast.Attribute) and sub.attr in ("__elements", "__self_locking", "_Powertrain__elements", "_Powertrain__self_locking"):
                                writers.append((fn.name, sub.attr))
                    if isinstance(node, ast.Call) and getattr(node.func, "id", "") in ("setattr", "delattr"):
                        writers.append((fn.name, "setattr/delattr"))
                    if isinstance(node, ast.Attribute) and node.attr == "__dict__":
                        writers.append((fn.name, "__dict__"))
        bad = [w for w in writers if w[0] != "__init__"]
        O.prove("frame:only-__init__-assigns-elements-and-self_locking", not bad, props=("C20",), note=f"{bad}")
    return Job("powertrain.init[misc]", body, ("C20",), functions=["gearpy.powertrain.Powertrain"], meta=dict(family="powertrain-init"))


def powertrain_jobs():
    import itertools
    jobs = [job_powertrain_misc()]
    for n in range(2, 13):
        names = tuple(f"e{k}" for k in range(n))
        positions = list(range(1, n))
        masks = [()]
        masks += [(k,) for k in positions]
        if n <= 6:
            for r in range(2, n):
                masks += list(itertools.combinations(positions, r))
        else:
            masks += [(1, n - 1), (n // 2, n - 1)] if n > 2 else []
        for mk in masks:
            jobs.append(job_powertrain(n, set(mk), names))
        # duplicate names: every pair (i, j)
        for i, j in itertools.combinations(range(n), 2):
            nm = list(names)
            nm[j] = nm[i]
            jobs.append(job_powertrain(n, set(), tuple(nm)))
    return jobs


def all_jobs(exact_tables=None):
    jobs = []
    for Mc in CLASSES:
        for Sc in CLASSES:
            for prior in ("fresh", "re-declared"):
                if prior == "re-declared" and not ({Mc, Sc} <= (GEARBASE | {"WormGear", "Flywheel"})):
                    continue
                jobs.append(job_gear_mating(Mc, Sc, prior=prior))
                jobs.append(job_fixed_joint(Mc, Sc, prior=prior))
                if {Mc, Sc} == {"WormGear", "WormWheel"}:
                    for pa in range(4):
                        jobs.append(job_worm_mating(Mc, Sc, pa, pa, prior=prior))
                    jobs.append(job_worm_mating(Mc, Sc, 0, 1, prior=prior))
                else:
                    jobs.append(job_worm_mating(Mc, Sc, prior=prior))
        jobs.append(job_gear_mating(Mc, Mc, alias=True))
        jobs.append(job_fixed_joint(Mc, Mc, alias=True))
        jobs.append(job_worm_mating(Mc, Mc, alias=True))
    jobs += powertrain_jobs()
    return jobs
