"""Sidecar contracts for gearpy, keyed by qualified function name. No annotation is written into /repo."""

UNIT_TRUST = []

PROPERTIES = {
    "C05": dict(modules=["contracts.units"], level="proof", exhaustive=True,
                explanation="Every unit table entry is compared with an independent SI table in exact rational "
                            "arithmetic; the real to()/comparison methods run over symbolic values for every "
                            "ordered unit pair of every kind and each path's postconditions are discharged by z3.",
                assumptions=[], trusted_base=["pycv/spec.py L0 SI table (written from the SI definitions)"],
                level_text="Unbounded proof in real arithmetic for all values and, exhaustively, all 607 ordered unit pairs of the 13 kinds: unit tables equal an independent SI table exactly; to() preserves the SI magnitude, copy/in-place agree, there-and-back is the identity; the six comparisons agree with the SI order outside the library's absolute 1e-12 band (inside it: recorded known finding).",
                level_note="Real arithmetic (rounding not modelled); pi is one exact rational on both sides; the proxy layer and z3 are trusted; the L0 SI table is hand-written from the SI definitions."),
    "C06": dict(modules=["contracts.units"], level="proof", exhaustive=True,
                explanation="Every ordered pair of operand kinds (13 kinds + int + float) x {+,-,*,/} is dispatched "
                            "by CPython itself on the real classes with symbolic values; defined pairs for every unit "
                            "pair; result kind / SI magnitude / exception class are postconditions discharged by z3.",
                assumptions=[], trusted_base=["pycv/spec.py dimension table (transcribed from the property text)"],
                level_text="Unbounded proof in real arithmetic, exhaustive over all 15x15 ordered operand kinds x {+,-,*,/} and all unit pairs of the defined ones: TypeError exactly for pairs outside the dimension table, otherwise the tabled kind with the SI magnitude of the result equal to the sum/difference/product/quotient of the operands' SI magnitudes; (a+b)-b=a and a-b=-(b-a) proved on the real operator sequence.",
                level_note="Real arithmetic; CPython's own operator dispatch (reflected methods, subclass priority) is executed, not modelled; the dimension table is transcribed from the property statement."),
    "C19": dict(modules=["contracts.units"], level="proof", exhaustive=True,
                explanation="Class invariant valid(q) + frame condition (operators never mutate operands) are "
                            "postconditions of every constructor/operator/conversion of every unit class; by "
                            "induction on program length every quantity reachable by a straight-line program is valid.",
                assumptions=["the induction over straight-line programs is the usual one: every operation's postcondition gives valid results and unchanged operands, hence every reachable object is valid; component-constructor clauses are added by the component contracts"], trusted_base=[],
                level_text="Class invariant valid(q) (unit in table, sign constraint, all name-mangled copies agree) proved as postcondition of every constructor, operator, unary operator and conversion (copy and in place) of all 13 unit classes for all values and all units, with the frame condition that no operator mutates an operand; ValueError is the only rejection.",
                level_note="Real arithmetic: floating-point underflow of an in-place conversion (a positive subnormal becoming 0.0) is outside tier R and is reported by the thorough tier's bit-precise search when built."),
    "C08": dict(modules=["contracts.motor"], level="proof", uses_unit_contracts=True,
                explanation="The real DCMotor.__init__/pwm setter/compute_torque/compute_electric_current run over abstract "
                            "quantities with symbolic values and symbolic units; every path's result is proved equal to the "
                            "characteristic written in the property; the 'hence' consequences are lemmas over the spec functions.",
                assumptions=["quantities are abstract (SymQ): callers are verified against the unit layer's contract "
                             "(pycv/absunits.py), which is itself proved against the real unit classes in the same run"],
                trusted_base=["transcription of the C08 law into contracts/motor.py spec_torque/spec_current"],
                level_text="Unbounded proof in real arithmetic for all motor constants in all units, all speeds and all duty cycles: every path of the real compute_torque / compute_electric_current equals the documented piecewise characteristic (dead zone exactly |D| <= i0/imax, mirrored branch, no-current-data branch); D=1 end points, continuity at the dead-zone boundary and odd symmetry are proved as lemmas; the unit-layer contracts used are discharged against the real unit classes in the same run.",
                level_note="Real arithmetic: the floating-point neighbours of the dead-zone boundary (D*imax - i0 rounding to 0) are outside tier R; proxies and z3 trusted."),
}
