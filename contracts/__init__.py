"""Sidecar contracts for gearpy, keyed by qualified function name. No annotation is written into /repo."""

UNIT_TRUST = []

PROPERTIES = {
    "C05": dict(modules=["contracts.units"], level="proof", exhaustive=True,
                explanation="Every unit table entry is compared with an independent SI table in exact rational "
                            "arithmetic; the real to()/comparison methods run over symbolic values for every "
                            "ordered unit pair of every kind and each path's postconditions are discharged by z3.",
                assumptions=[], trusted_base=["pycv/spec.py L0 SI table (written from the SI definitions)"]),
    "C06": dict(modules=["contracts.units"], level="proof", exhaustive=True,
                explanation="Every ordered pair of operand kinds (13 kinds + int + float) x {+,-,*,/} is dispatched "
                            "by CPython itself on the real classes with symbolic values; defined pairs for every unit "
                            "pair; result kind / SI magnitude / exception class are postconditions discharged by z3.",
                assumptions=[], trusted_base=["pycv/spec.py dimension table (transcribed from the property text)"]),
    "C19": dict(modules=["contracts.units"], level="proof", exhaustive=True,
                explanation="Class invariant valid(q) + frame condition (operators never mutate operands) are "
                            "postconditions of every constructor/operator/conversion of every unit class; by "
                            "induction on program length every quantity reachable by a straight-line program is valid.",
                assumptions=[], trusted_base=[]),
}
