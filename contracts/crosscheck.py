"""contracts.crosscheck -- engine cross-check (thorough tier, bounded, tier C).

Every job of the property that has a concrete mode is also run NATIVELY (unpatched gearpy, real unit classes) on random
inputs drawn from a fixed seed; a clause the symbolic run discharged must not fail natively.  A disagreement that is not a
recorded known finding and does not vanish when the inputs are moved by a relative 1e-6 (rounding on a decision
boundary) means the engine, a proxy or a contract is wrong: it is reported as an ENGINE problem (exit 3), never as a
property verdict.  Bounded: `trials` inputs per job."""
from __future__ import annotations

import os
import sys
import time

ROOT = os.path.dirname(os.path.dirname(os.path.abspath(__file__)))
MODS = {"C05": (["contracts.units"], 6), "C06": (["contracts.units"], 6), "C19": (["contracts.units", "contracts.motor", "contracts.gears"], 6),
        "C10": (["contracts.relations"], 20), "C14": (["contracts.control"], 100), "C15": (["contracts.control"], 100),
        "C16": (["contracts.control"], 100), "C08": (["contracts.motor"], 400), "C09": (["contracts.gears"], 100), "C07": (["contracts.motor", "contracts.gears"], 100)}


def extra_checks(prop, tier, seed):
    if tier != "thorough" or prop not in MODS:
        return []
    sys.path.insert(0, os.path.join(ROOT, "tools"))
    import crosscheck as X
    mods, trials = MODS[prop]
    t0 = time.time()
    r = X.crosscheck(mods, trials, "", props=(prop,))
    bad = r["fails"]
    ex = [dict(job=k[0], clause=k[1], inputs={a: repr(b) for a, b in r["examples"][k][1].items()}) for k in list(bad)[:3]]
    return [dict(id=f"crosscheck.native-vs-symbolic[{','.join(m.split('.')[-1] for m in mods)}]",
                 status="engine-error" if bad else "passed", counts_as_obligation=False, bounded=True,
                 bound=f"{r['ran']} native runs of {r['live']} jobs ({trials} random inputs per job, fixed seed)",
                 time_s=round(time.time() - t0, 1),
                 note=(f"{len(bad)} (job, clause) pairs fail natively although discharged symbolically: {ex}" if bad else
                       f"no clause discharged symbolically failed natively; {len(r['boundary'])} rounding-at-a-decision-boundary cases set aside"))]
