"""contracts.floatchecks -- BOUNDED native stand-ins for the floating-point clauses of C11, C19 and C08.

Tier R (real arithmetic) cannot see rounding.  The three clauses below are statements about binary64 behaviour that
the properties name explicitly (decimal time steps, "floating-point neighbours" of the dead zone, in-place
conversion of tiny values).  They are checked on the REAL code by bounded native enumeration; every result is
labelled bounded and never counted as proved.  A failing input is a genuine counterexample (it is the replay).
"""
from __future__ import annotations

import math
import random
from decimal import Decimal

from pycv.explore import Job


def all_jobs(exact_tables=None):
    return []


# ---------------------------------------------------------------------------------------------------------------------
# C11: decimal (dt, T = n*dt) pairs: time 0 then exactly n further instants, the last one equal to T, none beyond
# ---------------------------------------------------------------------------------------------------------------------

def _grid_solver():
    """the real Solver.run on a real two-element powertrain with the per-instant physics switched off on the INSTANCE
    (the time-axis logic of run -- arange, update_time, loop -- is the real code)"""
    from gearpy.mechanical_objects import DCMotor, SpurGear
    from gearpy.powertrain import Powertrain
    from gearpy.solver import Solver
    from gearpy.units import AngularPosition, AngularSpeed, InertiaMoment, Torque
    from gearpy.utils import add_fixed_joint
    m = DCMotor("m", InertiaMoment(1, "kgm^2"), AngularSpeed(100, "rad/s"), Torque(1, "Nm"))
    g = SpurGear("g", 20, InertiaMoment(1, "kgm^2"))
    add_fixed_joint(m, g)
    g.external_torque = lambda time, angular_position, angular_speed: Torque(0, "Nm")
    g.angular_position = AngularPosition(0, "rad")
    g.angular_speed = AngularSpeed(0, "rad/s")
    pt = Powertrain(m)
    s = Solver(pt)
    s._compute_powertrain_variables = lambda motor_control=None: None
    s._time_integration = lambda time_discretization=None: None
    return pt, s


def float_grid(tier, seed):
    from gearpy.units import TimeInterval
    rng = random.Random(seed)
    cases = []
    ms = list(range(1, 100)) if tier == "thorough" else rng.sample(range(1, 100), 30)
    ns = list(range(2, 121)) if tier == "thorough" else rng.sample(range(2, 121), 30)
    for e in (0, 1, 2, 3):
        for m in ms:
            for n in ns:
                cases.append((m, e, n))
    if tier != "thorough":
        cases = rng.sample(cases, 1500)
    # always include the documented witness
    cases.append((35, 2, 30))
    bad = []
    checked = 0
    for (m, e, n) in cases:
        dtd = Decimal(m) / (Decimal(10) ** e)
        dt = float(dtd)
        for form, T in (("dt*n", dt * n), ("decimal", float(dtd * n))):
            for unit in (("sec",) if tier != "thorough" else ("sec", "ms", "min")):
                if not dt < T:
                    continue
                pt, s = _grid_solver()
                try:
                    s.run(TimeInterval(dt, unit), TimeInterval(T, unit))
                except Exception as ex:       # noqa: BLE001
                    bad.append(dict(dt=dt, T=T, unit=unit, form=form, error=repr(ex)))
                    continue
                checked += 1
                t = [x.to(unit).value for x in pt.time]
                ok = len(t) == n + 1 and t[0] == 0 and abs(t[-1] - T) <= 1e-9 * T and all(x <= T * (1 + 1e-9) for x in t)
                if not ok:
                    bad.append(dict(dt=dt, T=T, unit=unit, form=form, n=n, instants=len(t) - 1, last=t[-1]))
                # continuation: n more instants, up to 2T
                try:
                    s.run(TimeInterval(dt, unit), TimeInterval(T, unit))
                    t2 = [x.to(unit).value for x in pt.time]
                    ok2 = len(t2) == 2 * n + 1 and abs(t2[-1] - 2 * T) <= 1e-9 * 2 * T
                    if not ok2 and ok:
                        bad.append(dict(dt=dt, T=T, unit=unit, form=form, n=n, continued_instants=len(t2) - 1, last=t2[-1]))
                except Exception as ex:       # noqa: BLE001
                    bad.append(dict(dt=dt, T=T, unit=unit, form=form, error="continuation: " + repr(ex)))
    return dict(id="float.grid[decimal dt, T=n*dt: exactly n instants, last = T, none beyond]", clause="float.grid",
                status="refuted" if bad else "passed", counts_as_obligation=False, bounded=True,
                bound=f"{checked} native runs of the real Solver.run time-axis logic: dt = m*10^-e (m<100, e<=3), n in 2..120, T as dt*n and as decimal; fresh run + one continuation",
                note=f"{len(bad)} failing (dt, T) pairs, e.g. {bad[:3]}" if bad else "no failing pair",
                replay_result=dict(confirmed=bool(bad), cases=bad[:10], n_failing=len(bad)), meta=dict(family="float"))


# ---------------------------------------------------------------------------------------------------------------------
# C19: in-place conversion of tiny / huge valid values never leaves an invalid quantity behind
# ---------------------------------------------------------------------------------------------------------------------

def inplace_extremes(tier, seed):
    import gearpy.units as GU
    kinds = {"Length": "pos", "Surface": "pos", "InertiaMoment": "pos", "TimeInterval": "pos", "Angle": "nonneg"}
    vals = [5e-324, 1e-323, 1e-320, 2.2250738585072014e-308, 1e-300, 1e-200, 1e300, 1.7e308]
    bad = []
    checked = 0
    for K, sgn in kinds.items():
        cls = getattr(GU, K)
        tab = None
        for C in cls.__mro__:
            tab = C.__dict__.get(f"_{C.__name__}__UNITS") or tab
            if tab:
                break
        for su in tab:
            for tu in tab:
                for v in vals:
                    for inplace in (True, False):
                        try:
                            q = cls(v, su)
                        except ValueError:
                            continue
                        try:
                            r = q.to(tu, inplace=inplace)
                        except (ValueError, OverflowError):
                            r = None
                        checked += 1
                        for obj, tag in ((q, "self"), (r, "result")):
                            if obj is None:
                                continue
                            x = obj.value
                            okv = (x > 0 if sgn == "pos" else x >= 0) and x == x        # overflow to inf keeps the sign
                            if not okv:
                                bad.append(dict(kind=K, value=v, unit=su, target=tu, inplace=inplace, which=tag, got=repr(x)))
    return dict(id="float.inplace-conversion[tiny/huge valid values stay valid or raise ValueError]", clause="float.inplace",
                status="refuted" if bad else "passed", counts_as_obligation=False, bounded=True,
                bound=f"{checked} native conversions: 5 sign-constrained kinds x all unit pairs x 8 extreme values x copy/in-place",
                note=f"{len(bad)} invalid quantities, e.g. {bad[:3]}" if bad else "none",
                replay_result=dict(confirmed=bool(bad), cases=bad[:10], n_failing=len(bad)), meta=dict(family="float"))


# ---------------------------------------------------------------------------------------------------------------------
# C08: floating-point neighbours of the dead-zone boundary
# ---------------------------------------------------------------------------------------------------------------------

def dead_zone_neighbours(tier, seed):
    from gearpy.mechanical_objects import DCMotor
    from gearpy.units import AngularSpeed, Current, InertiaMoment, Torque
    rng = random.Random(seed)
    pairs = [(0.7, 3.0), (0.1, 2.0), (0.2, 1.0), (0.3, 1.7), (50.0, 700.0)]
    for _ in range(40 if tier != "thorough" else 400):
        imax = round(rng.uniform(0.5, 5), rng.choice([1, 2, 3]))
        i0 = round(rng.uniform(0.01, 0.9) * imax, rng.choice([1, 2, 3]))
        if 0 < i0 < imax:
            pairs.append((i0, imax))
    bad = []
    checked = 0
    for (i0, imax) in pairs:
        m = DCMotor("m", InertiaMoment(1, "kgm^2"), AngularSpeed(1000, "rpm"), Torque(10, "mNm"), Current(i0, "A"), Current(imax, "A"))
        dz = i0 / imax
        ds = {dz}
        x = dz
        for _ in range(4):
            x = math.nextafter(x, 2.0)
            ds.add(x)
        x = dz
        for _ in range(4):
            x = math.nextafter(x, -2.0)
            ds.add(x)
        for d in sorted(ds):
            for sign in (1, -1):
                D = sign * d
                if not -1 <= D <= 1:
                    continue
                for w in (0.0, 50.0, -50.0):
                    m.pwm = D
                    m.angular_speed = AngularSpeed(w, "rad/s")
                    checked += 1
                    try:
                        m.compute_torque()
                        m.compute_electric_current()
                        T = m.driving_torque.to("Nm").value
                        I = m.electric_current.to("A").value
                    except Exception as ex:       # noqa: BLE001
                        bad.append(dict(i0=i0, imax=imax, D=D, w=w, error=repr(ex)))
                        continue
                    # continuity: next to the boundary torque is ~0 and the current ~ sign*i0 (law continuous there)
                    if not (abs(T) <= 1e-6 * 0.01 * (1 + abs(w)) and abs(abs(I) - i0) <= 1e-6 * imax * (1 + abs(w))):
                        bad.append(dict(i0=i0, imax=imax, D=D, w=w, torque=T, current=I))
    zd = [b for b in bad if "ZeroDivisionError" in b.get("error", "")]
    other = [b for b in bad if b not in zd]
    common = dict(counts_as_obligation=False, bounded=True, meta=dict(family="float"),
                  bound=f"{checked} native evaluations: {len(pairs)} (i0, imax) pairs x 9 neighbouring duty cycles x both signs x 3 speeds")
    return [dict(id="float.dead-zone-neighbours[no ZeroDivisionError next to the boundary]", clause="float.deadzone.zd",
                 status="refuted" if zd else "passed", note=f"{len(zd)} failing, e.g. {zd[:3]}" if zd else "none",
                 replay_result=dict(confirmed=bool(zd), cases=zd[:10], n_failing=len(zd)), **common),
            dict(id="float.dead-zone-neighbours[torque and current continuous across the boundary, no other exception]",
                 clause="float.deadzone.cont", status="refuted" if other else "passed",
                 note=f"{len(other)} failing, e.g. {other[:3]}" if other else "none",
                 replay_result=dict(confirmed=bool(other), cases=other[:10], n_failing=len(other)), **common)]


def extra_checks(prop, tier, seed):
    if prop == "C11":
        return [float_grid(tier, seed)]
    if prop == "C19":
        return [inplace_extremes(tier, seed)]
    if prop == "C08":
        return dead_zone_neighbours(tier, seed)
    return []
