"""contracts.gears -- gear classes (SpurGear, HelicalGear, WormWheel, WormGear): constructors, the three
'is computable' flags, tangential force, bending and contact stress, advertised vs recorded time variables.

Properties: C09 (formulas and flags), C19 (component constructors reject non-physical parameters),
C17 (L1 part: keys advertised at construction = keys appended by update_time_variables), C07 (table look-ups).

The real classes run with abstract quantities (SymQ, symbolic units) and a symbolic integer number of teeth.
Assumed contracts (listed in the evidence): scipy interp1d `lewis_factor_function` = the uninterpreted function
g_lewis (cross-checked natively against the CSV, bounded); the two worm table look-ups = uninterpreted functions of
the pressure angle's SI magnitude (their unit independence is checked natively, exhaustively, see job worm-tables).
"""
from __future__ import annotations

import itertools

import z3

from pycv import absunits as AU
from pycv import harness as H
from pycv import spec
from pycv import logic as L
from pycv import sym
from pycv.absunits import SymQ
from pycv.explore import Job
from pycv.sym import SymNum

MO = "gearpy.mechanical_objects"
STUB_MODULES = [f"{MO}.mechanical_object_base", f"{MO}.spur_gear", f"{MO}.helical_gear", f"{MO}.worm_wheel",
                f"{MO}.worm_gear", f"{MO}.flywheel", f"{MO}.dc_motor"]
_PATCHED = [False]

R = z3.RealSort()
g_lewis = z3.Function("g_lewis", R, R)
g_wlewis = z3.Function("g_worm_wheel_lewis", R, R)
g_maxhelix = z3.Function("g_worm_max_helix", R, R)
PRESSURE_ANGLES_DEG = ["14.5", "20", "25", "30"]


class _Take:
    def __init__(self, v):
        self.v = v

    def take(self, k):
        # numpy: the interpolated value is a 0-d array; take(0) (or take(-1)) is its only element, anything else IndexError
        if k not in (0, -1):
            raise IndexError(f"index {k} is out of bounds for axis 0 with size 1")
        return self.v


def lewis_stub(x):
    if sym.is_sym(x):
        c = sym.ctx()
        t = sym.term_of(x)
        c.assume(g_lewis(t) > 0)
        c.events.append(("lewis", t))
        return _Take(SymNum(g_lewis(t), "float"))
    import gearpy.mechanical_objects.mechanical_object_base as B
    return B._real_lewis_factor_function(x)


def _table_angle(pressure_angle):
    """a tabulated pressure angle given as an exact literal -> the real Angle in degrees (None if symbolic)"""
    from fractions import Fraction
    si = pressure_angle.si()
    if isinstance(si, Fraction):
        import gearpy.units as GU
        deg = si / AU.fac("Angle", "deg")
        return GU.Angle(float(deg), "deg")
    return None


def max_helix_stub(pressure_angle):
    if isinstance(pressure_angle, SymQ):
        import gearpy.mechanical_objects.mechanical_object_base as B
        ra = _table_angle(pressure_angle)
        c = sym.ctx()
        t = sym.term_of(pressure_angle.si())
        if ra is not None:
            # the table row of a literal tabulated angle is read from the real CSV (data, not code)
            real = B._real_max_helix(pressure_angle=ra)
            v = sym.to_frac(real.to("deg").value) * AU.fac("Angle", "deg")
            c.assume(g_maxhelix(t) == sym.frac_term(v))
        c.assume(g_maxhelix(t) > 0)
        return SymQ("Angle", SymNum(g_maxhelix(t), "float"), "deg")
    import gearpy.mechanical_objects.mechanical_object_base as B
    return B._real_max_helix(pressure_angle=pressure_angle)


def wheel_lewis_stub(pressure_angle):
    if isinstance(pressure_angle, SymQ):
        import gearpy.mechanical_objects.mechanical_object_base as B
        c = sym.ctx()
        t = sym.term_of(pressure_angle.si())
        ra = _table_angle(pressure_angle)
        if ra is not None:
            c.assume(g_wlewis(t) == sym.frac_term(sym.to_frac(float(B._real_wheel_lewis(pressure_angle=ra)))))
        c.assume(g_wlewis(t) > 0)
        return SymNum(g_wlewis(t), "float")
    import gearpy.mechanical_objects.mechanical_object_base as B
    return B._real_wheel_lewis(pressure_angle=pressure_angle)


def patch_worker():
    if _PATCHED[0]:
        return
    _PATCHED[0] = True
    import importlib
    from pycv import patch
    mods = [importlib.import_module(m) for m in STUB_MODULES]
    B = mods[0]
    B._real_lewis_factor_function = B.lewis_factor_function
    B._real_max_helix = B.worm_gear_and_wheel_maximum_helix_angle_function
    B._real_wheel_lewis = B.worm_wheel_lewis_factor_function
    for m in mods:
        if "lewis_factor_function" in m.__dict__:
            m.__dict__["lewis_factor_function"] = lewis_stub
        if "worm_gear_and_wheel_maximum_helix_angle_function" in m.__dict__:
            m.__dict__["worm_gear_and_wheel_maximum_helix_angle_function"] = max_helix_stub
        if "worm_wheel_lewis_factor_function" in m.__dict__:
            m.__dict__["worm_wheel_lewis_factor_function"] = wheel_lewis_stub
    patch.PATCH_LOG.extend(H.stub_unit_classes(STUB_MODULES))
    patch.PATCH_LOG.append("gear modules: lewis_factor_function / worm table look-ups replaced by assumed contracts (uninterpreted functions)")


def classes():
    import gearpy.mechanical_objects as M
    return dict(SpurGear=M.SpurGear, HelicalGear=M.HelicalGear, WormWheel=M.WormWheel, WormGear=M.WormGear,
                Flywheel=M.Flywheel, DCMotor=M.DCMotor)


def roles():
    import gearpy.mechanical_objects as M
    return dict(master=M.MatingMaster, slave=M.MatingSlave, none=None)


BASE_KEYS = ["angular position", "angular speed", "angular acceleration", "torque", "driving torque", "load torque"]


def pressure_angle(c, k):
    """one of the four tabulated worm pressure angles, written in degrees (units other than deg: job worm-tables)"""
    from fractions import Fraction
    v = Fraction(PRESSURE_ANGLES_DEG[k])
    if c.concrete:
        import gearpy.units as GU
        return GU.Angle(float(v), "deg")
    return SymQ("Angle", v * AU.fac("Angle", "deg"), "deg")


def build(c, O, cls, module=True, face=True, elastic=True, refdiam=True, pa=1, tag="g", check=True, literal_helix=False):
    """run the real constructor with symbolic data -> (object | None, dict of the arguments)"""
    C = classes()[cls]
    J = H.mkq(c, "InertiaMoment", f"{tag}_J")
    a = dict(name=tag, inertia_moment=J)
    q = dict(J=J)
    if cls in ("SpurGear", "HelicalGear", "WormWheel"):
        n = c.real(f"{tag}_n", pytype="int")
        q["n"] = n
        a["n_teeth"] = n
        if module:
            q["m"] = a["module"] = H.mkq(c, "Length", f"{tag}_m")
        if face:
            q["b"] = a["face_width"] = H.mkq(c, "Length", f"{tag}_b")
    if cls in ("SpurGear", "HelicalGear") and elastic:
        q["E"] = a["elastic_modulus"] = H.mkq(c, "Stress", f"{tag}_E")
    if cls in ("HelicalGear", "WormWheel", "WormGear"):
        if literal_helix and not c.concrete:
            # jobs that do not depend on the helix angle use a literal one (keeps the path condition linear)
            q["beta"] = a["helix_angle"] = SymQ("Angle", 10 * AU.fac("Angle", "deg"), "deg")
        else:
            q["beta"] = a["helix_angle"] = H.mkq(c, "Angle", f"{tag}_beta")
    if cls in ("WormWheel", "WormGear"):
        q["alpha"] = a["pressure_angle"] = pressure_angle(c, pa)
    if cls == "WormGear":
        ns = c.real(f"{tag}_starts", pytype="int")
        q["starts"] = a["n_starts"] = ns
        if refdiam:
            q["d"] = a["reference_diameter"] = H.mkq(c, "Length", f"{tag}_d")
    st, r = H.call(C, **a)
    bad = []
    if "n" in q:
        bad.append(L.lt(q["n"], 10))
    if "E" in q:
        bad.append(L.le(H.SI(q["E"]), 0))
    if "starts" in q:
        bad.append(L.lt(q["starts"], 1))
    deg90 = 90 * AU.fac("Angle", "deg")
    if cls == "HelicalGear":
        bad.append(L.ge(H.SI(q["beta"]), deg90))
    if cls in ("WormWheel", "WormGear") and not c.concrete:
        mx = g_maxhelix(sym.term_of(H.SI(q["alpha"])))
        bad.append(L.gt(H.SI(q["beta"]), mx))
        if cls == "WormWheel":
            bad.append(L.ge(H.SI(q["beta"]), deg90))
    if cls in ("WormWheel", "WormGear") and c.concrete:
        # native replay: the tabulated maximum helix angle of this pressure angle (independent L0 data, DESIGN appendix A)
        mxd = {14.5: 16.0, 20.0: 25.0, 25.0: 35.0, 30.0: 45.0}[float(PRESSURE_ANGLES_DEG[pa])]
        bad.append(float(H.SI(q["beta"])) > float(mxd * AU.fac("Angle", "deg")) - 1e-11)
        if cls == "WormWheel":
            bad.append(float(H.SI(q["beta"])) >= float(deg90) - 1e-11)
    if st == "raise":
        if check:
            O.cover("ctor:rejects")
            if isinstance(r, ValueError):
                # outside the comparison tolerance band of the angle thresholds
                band = L.mul(4 * AU.TOL, L.add(AU.fac("Angle", q["beta"].unit), 1)) if "beta" in q and not c.concrete else 0
                near = L.Or(L.le(L.absv(L.sub(H.SI(q["beta"]), deg90)), band),
                            L.le(L.absv(L.sub(H.SI(q["beta"]), g_maxhelix(sym.term_of(H.SI(q["alpha"]))))), band)
                            if "alpha" in q else False) if ("beta" in q and not c.concrete) else False
                O.prove("ctor:ValueError-only-for-non-physical-parameters", L.Or(*bad, near) if bad else False,
                        props=("C19",), note=str(r))
            else:
                O.fail("ctor:no-unexpected-exception", props=("C19",), note=repr(r))
        return None, q
    if check:
        O.cover("ctor:accepts")
        if "beta" in q and not c.concrete:
            band = L.mul(4 * AU.TOL, L.add(AU.fac("Angle", q["beta"].unit), 1))
            strict = [b for b in bad]
            ok = L.And(*[L.Not(b) for b in strict[:-1 if cls != "WormWheel" else -2]]) if False else None
        # accepted => every listed condition holds (angle thresholds up to the comparison tolerance)
        goals = []
        if "n" in q:
            goals.append(L.ge(q["n"], 10))
        if "E" in q:
            goals.append(L.gt(H.SI(q["E"]), 0))
        if "starts" in q:
            goals.append(L.ge(q["starts"], 1))
        if "beta" in q and not c.concrete:
            band = L.mul(4 * AU.TOL, L.add(AU.fac("Angle", q["beta"].unit), 1))
            if cls in ("HelicalGear", "WormWheel"):
                goals.append(L.lt(H.SI(q["beta"]), L.add(deg90, band)))
            if cls in ("WormWheel", "WormGear"):
                goals.append(L.le(H.SI(q["beta"]), L.add(g_maxhelix(sym.term_of(H.SI(q["alpha"]))), band)))
        O.prove("ctor:accepts-only-physical-parameters", L.And(*goals) if goals else True, props=("C19",))
    return r, q


def subsets(cls):
    if cls in ("SpurGear", "HelicalGear"):
        return [dict(module=m, face=f, elastic=e) for m, f, e in itertools.product((True, False), repeat=3)]
    if cls == "WormWheel":
        return [dict(module=m, face=f) for m, f in itertools.product((True, False), repeat=2)]
    return [dict(refdiam=d) for d in (True, False)]


def tagof(d):
    return ",".join(k for k, v in d.items() if v) or "no-optional-data"


# ---- constructor, flags, advertised keys -------------------------------------------------------------------------

def expected_flags(cls, d):
    if cls == "WormGear":
        return dict(tf=d["refdiam"], bs=None, cs=None)
    tf = d["module"]
    bs = d["module"] and d["face"]
    cs = bs and d.get("elastic", False) if cls != "WormWheel" else False
    return dict(tf=tf, bs=bs, cs=cs)


def expected_keys(cls, d):
    fl = expected_flags(cls, d)
    keys = list(BASE_KEYS)
    if fl["tf"]:
        keys.append("tangential force")
    if fl["bs"]:
        keys.append("bending stress")
    if fl["cs"]:
        keys.append("contact stress")
    return keys


def job_ctor(cls, d, pa=1):
    def body(c, O):
        g, q = build(c, O, cls, pa=pa, **d)
        if g is None:
            return
        fl = expected_flags(cls, d)
        O.prove("flags:tangential_force_is_computable-iff-own-data-present", bool(g.tangential_force_is_computable) == bool(fl["tf"]),
                props=("C09", "C17"))
        if cls != "WormGear":
            O.prove("flags:bending_stress_is_computable-iff-module-and-face-width(unmated)",
                    bool(g.bending_stress_is_computable) == bool(fl["bs"]), props=("C09", "C17"))
            O.prove("flags:contact_stress_is_computable-iff-module,face-width-and-elastic-modulus",
                    bool(g.contact_stress_is_computable) == bool(fl["cs"]), props=("C09", "C17"))
            O.prove("flags:nested(contact=>bending=>force)",
                    (not g.contact_stress_is_computable or g.bending_stress_is_computable) and
                    (not g.bending_stress_is_computable or g.tangential_force_is_computable), props=("C17", "C09"))
        keys = list(g.time_variables.keys())
        O.prove("advertised:time-variable-keys=base-six+the-computable-ones", keys == expected_keys(cls, d), props=("C17",),
                note=f"{keys}")
        O.prove("advertised:all-series-empty", all(v == [] for v in g.time_variables.values()), props=("C17",))
        if c.concrete:
            return
        if fl["bs"] and cls == "SpurGear":
            O.prove("lewis:spur=table-interpolation-at-n_teeth", g.lewis_factor.term.eq(g_lewis(sym.term_of(q["n"]))) or
                    L.eq(g.lewis_factor, g_lewis(sym.term_of(q["n"]))), props=("C09",))
        if fl["bs"] and cls == "HelicalGear":
            # documented geometry: alpha_t = atan(tan 20deg / cos beta), beta_b = atan(cos alpha_t * tan beta),
            # z_v = z / cos^2(beta_b) / cos(beta)   (the docstring prints cos beta in beta_b: typo, see DESIGN.md)
            ev = [e for e in c.events if isinstance(e, tuple) and e[0] == "lewis"]
            beta = sym.term_of(H.SI(q["beta"]))
            from fractions import Fraction
            a20 = sym.frac_term(20 * AU.fac("Angle", "deg"))
            UF = sym.UF
            at = z3.Real("alpha_t")
            bb = z3.Real("beta_b")
            spec_defs = z3.And(UF["tan"](at) == UF["tan"](a20) / UF["cos"](beta), UF["cos"](at) > 0,
                               UF["tan"](bb) == UF["cos"](at) * UF["tan"](beta), UF["cos"](bb) > 0)
            zv = sym.term_of(q["n"]) / (UF["cos"](bb) * UF["cos"](bb)) / UF["cos"](beta)
            O.prove("lewis:helical=table-interpolation-consulted", len(ev) >= 1, props=("C09",))
            if ev:
                arg = ev[-1][1]
                # the code's argument is built from atan terms: alpha_t := atan(.), beta_b := atan(.)
                code_at = UF["atan"](UF["tan"](a20) / UF["cos"](beta))
                code_bb = UF["atan"](UF["cos"](code_at) * UF["tan"](beta))
                O.prove("lewis:helical-virtual-teeth-number=z/cos^2(beta_b)/cos(beta)",
                        z3.Implies(z3.And(at == code_at, bb == code_bb), arg == zv), props=("C09",))
        if fl["bs"] and cls == "WormWheel":
            O.prove("lewis:worm-wheel=pressure-angle-table-factor",
                    L.eq(g.lewis_factor, g_wlewis(sym.term_of(H.SI(q["alpha"])))), props=("C09",))
        if fl["tf"] and cls != "WormGear":
            O.prove("reference_diameter=n_teeth*module", L.eq(H.SI(g.reference_diameter), sym.term_of(q["n"]) * sym.term_of(H.SI(q["m"]))),
                    props=("C09",))
    return Job(f"gears.ctor[{cls},{tagof(d)}" + (f",alpha={PRESSURE_ANGLES_DEG[pa]}deg" if cls.startswith("Worm") else "") + "]",
               body, ("C09", "C17", "C19"),
               functions=[f"{MO}.{_mod(cls)}.{cls}.__init__", f"{MO}.mechanical_object_base.GearBase.__init__",
                          f"{MO}.{_mod(cls)}.{cls}.tangential_force_is_computable"],
               expect_covers=("ctor:accepts", "ctor:rejects"), meta=dict(family="gear-ctor", cls=cls))


def _mod(cls):
    return {"SpurGear": "spur_gear", "HelicalGear": "helical_gear", "WormWheel": "worm_wheel", "WormGear": "worm_gear",
            "Flywheel": "flywheel", "DCMotor": "dc_motor"}[cls]


# ---- mating stand-ins ---------------------------------------------------------------------------------------------------

class Mate:
    """the other gear of a mating as seen through its public properties"""
    _pycv_instance_of = ("RotatingObject", "MechanicalObject", "GearBase", "SpurGear", "HelicalGear", "WormGear", "WormWheel")

    def __init__(self, **kw):
        self.__dict__.update(kw)
        self.name = kw.get("name", "mate")

    _OPTIONAL = ("module", "face_width", "elastic_modulus", "reference_diameter", "helix_angle", "pressure_angle", "n_teeth", "n_starts",
                 "mating_role", "drives", "driven_by", "tangential_force", "bending_stress", "contact_stress")

    def __getattr__(self, name):
        # a public gear attribute the job did not give the mate is an optional datum that is absent
        if name in Mate._OPTIONAL:
            return None
        raise AttributeError(f"mate stand-in has no attribute {name!r}")


def _register_mate():
    import gearpy.mechanical_objects as MO          # native replays: the real setters use the real isinstance
    for base in (MO.RotatingObject, MO.GearBase, MO.WormGear):
        base.register(Mate)


_register_mate()


def _set(obj, attr, value):
    """state is prepared through the PUBLIC setters (nothing here depends on private attribute names)"""
    st, r = H.call(setattr, obj, attr, value)
    if st != "ok":
        raise sym.EngineError(f"harness: {type(obj).__name__}.{attr} = {value!r} was rejected: {r!r}")


def set_role(g, cls, role, mate):
    R_ = roles()[role]
    if R_ is not None:
        _set(g, "mating_role", R_)
    if role == "master":
        _set(g, "drives", mate)
    elif role == "slave":
        _set(g, "driven_by", mate)


def set_torques(c, g):
    Td = H.mkq(c, "Torque", "Td")
    Tl = H.mkq(c, "Torque", "Tl")
    _set(g, "driving_torque", Td)
    _set(g, "load_torque", Tl)
    return Td, Tl


# ---- tangential force ---------------------------------------------------------------------------------------------------------

def job_force(cls, role):
    def body(c, O):
        d = dict(refdiam=True) if cls == "WormGear" else dict(module=True, face=False, **({"elastic": False} if cls != "WormWheel" else {}))
        g, q = build(c, O, cls, check=False, **d)
        if g is None:
            return
        Td, Tl = set_torques(c, g)
        set_role(g, cls, role, Mate())
        st, r = H.call(g.compute_tangential_force)
        if role == "none":
            O.prove("force:unmated=>raises-instead-of-returning-a-number", st == "raise", props=("C09",))
            return
        if st == "raise":
            O.fail("force:no-exception-when-mated", props=("C09",), note=repr(r))
            return
        O.cover("returns")
        F = g.tangential_force
        O.prove("force:is-a-Force", H.kind(F) == "Force", props=("C09", "C17"))
        Tref = H.SI(Tl) if role == "master" else H.SI(Td)
        dia = H.SI(g.reference_diameter)
        # Ft = |reference torque| / (reference diameter / 2): load torque for the master, driving torque for the slave
        O.prove("force:=|reference-torque|/(reference-diameter/2)", L.eq(L.mul(H.SI(F), L.div(dia, 2)), L.absv(L.num(Tref))),
                props=("C09", "C07"))
        if cls == "WormGear":
            # The clause above is a recorded known finding for this class (undocumented factor tan(helix angle)).  So that
            # any OTHER deviation is still reported, the behaviour the library is known to have is pinned down exactly:
            # same reference torque by role, same diameter, times tan(helix angle).
            beta = H.SI(q["beta"])
            tb = (sym.UF["tan"](sym.term_of(beta)) if not c.concrete else __import__("math").tan(float(beta)))
            O.prove("force[WormGear]:=|reference-torque|/(reference-diameter/2)*tan(helix-angle)(recorded library behaviour)",
                    L.eq(L.mul(H.SI(F), L.div(dia, 2)), L.mul(L.absv(L.num(Tref)), tb)), props=("C09",))
    return Job(f"gears.force[{cls},{role}]", body, ("C09", "C17", "C07"),
               functions=[f"{MO}.{_mod(cls)}.{cls}.compute_tangential_force"], meta=dict(family="gear-force", cls=cls, role=role))


# ---- bending stress ---------------------------------------------------------------------------------------------------------------

def job_bending(cls, role):
    def body(c, O):
        d = dict(module=True, face=True, **({"elastic": False} if cls != "WormWheel" else {}))
        g, q = build(c, O, cls, check=False, **d)
        if g is None:
            return
        Ft = H.mkq(c, "Force", "Ft")
        c.assume(L.ge(H.SI(Ft), 0))            # post of compute_tangential_force: |T| / (d/2)
        _set(g, "tangential_force", Ft)
        mate = Mate()
        if cls == "WormWheel":
            mate.reference_diameter = H.mkq(c, "Length", "worm_d")
            mate.helix_angle = H.mkq(c, "Angle", "worm_beta")
            if c.concrete:
                c.assume(0 < float(H.SI(mate.helix_angle)) < 1.5707 and float(H.SI(mate.reference_diameter)) > 0)
            else:
                # a valid worm: 0 < helix angle < 90 deg (its constructor's maximum-helix check)
                c.assume(z3.And(mate.helix_angle.si() > 0, mate.helix_angle.si() < sym.frac_term(sym.PI / 2)))
        set_role(g, cls, role, mate)
        st, r = H.call(g.compute_bending_stress)
        if cls == "WormWheel" and role == "none":
            O.prove("bending:unmated-worm-wheel=>raises-instead-of-returning-a-number", st == "raise", props=("C09",))
            return
        if st == "raise":
            O.fail("bending:no-exception", props=("C09",), note=repr(r))
            return
        O.cover("returns")
        S = g.bending_stress
        O.prove("bending:is-a-Stress", H.kind(S) == "Stress", props=("C09", "C17"))
        Y = float(g.lewis_factor) if c.concrete else sym.term_of(g.lewis_factor)
        if cls != "WormWheel":
            den = L.mul(L.mul(H.SI(q["m"]), H.SI(q["b"])), Y)
        else:
            # p_n = pi * d_worm * sin(beta_worm) / N ; b_eff = min(b, 0.67 d_worm)
            if c.concrete:
                import math
                dwf, bwf = float(H.SI(mate.reference_diameter)), float(H.SI(q["b"]))
                pnf = math.pi * dwf * math.sin(float(H.SI(mate.helix_angle))) / q["n"]
                limf = 0.67 * dwf
                bandf = float(4 * AU.TOL * (AU.fac("Length", q["b"].unit) + AU.fac("Length", mate.reference_diameter.unit)))
                sf, ff, Yf = float(H.SI(S)), float(H.SI(Ft)), float(g.lewis_factor)
                O.prove("bending:=Ft/(p_n*b_eff*Y_alpha)",
                        (L.eq(sf * (pnf * bwf * Yf), ff) and bwf <= limf + bandf) or (L.eq(sf * (pnf * limf * Yf), ff) and limf <= bwf + bandf),
                        props=("C09",))
                bigf = float(8 * AU.TOL * max(spec.SI_TABLE["Length"].values()))
                O.prove("bending[WormWheel]:SI-determined-away-from-the-tie-b=0.67d",
                        (not (bwf + bigf <= limf) or L.eq(sf * (pnf * bwf * Yf), ff)) and (not (limf + bigf <= bwf) or L.eq(sf * (pnf * limf * Yf), ff)),
                        props=("C09", "C07"))
                return
            dw = sym.term_of(H.SI(mate.reference_diameter))
            pn = sym.PI.numerator / z3.RealVal(sym.PI.denominator) * dw * sym.UF["sin"](sym.term_of(H.SI(mate.helix_angle))) / sym.term_of(q["n"])
            from fractions import Fraction
            bw = sym.term_of(H.SI(q["b"]))
            lim = sym.frac_term(Fraction("0.67")) * dw
            # b_eff = min(b, 0.67 d_worm); the library's min compares across units with its absolute tolerance, so
            # inside that band either operand may be taken
            band = sym.term_of(L.mul(4 * AU.TOL, L.add(AU.fac("Length", q["b"].unit), AU.fac("Length", mate.reference_diameter.unit))))
            s_ = sym.term_of(H.SI(S))
            f_ = sym.term_of(H.SI(Ft))
            O.prove("bending:=Ft/(p_n*b_eff*Y_alpha)",
                    z3.Or(z3.And(s_ * (pn * bw * Y) == f_, bw <= lim + band), z3.And(s_ * (pn * lim * Y) == f_, lim <= bw + band)),
                    props=("C09",))
            # C07 (SI-determinacy): away from the tie b = 0.67 d -- by more than the largest value the tolerance band can take in
            # any units -- the stress is a function of the SI magnitudes alone (statement free of unit symbols)
            big = sym.frac_term(8 * AU.TOL * max(spec.SI_TABLE["Length"].values()))
            O.prove("bending[WormWheel]:SI-determined-away-from-the-tie-b=0.67d",
                    z3.And(z3.Implies(bw + big <= lim, s_ * (pn * bw * Y) == f_), z3.Implies(lim + big <= bw, s_ * (pn * lim * Y) == f_)),
                    props=("C09", "C07"), outputs=[H.SI(S)])
            return
        O.prove("bending:=Ft/(m*b*Y)", L.eq(L.mul(H.SI(S), den), H.SI(Ft)), props=("C09", "C07"))
    return Job(f"gears.bending[{cls},{role}]", body, ("C09", "C17", "C07"),
               functions=[f"{MO}.{_mod(cls)}.{cls}.compute_bending_stress"], meta=dict(family="gear-bending", cls=cls, role=role))


# ---- contact stress -------------------------------------------------------------------------------------------------------------------

def job_contact(cls, role, mate_module, mate_elastic):
    def body(c, O):
        g, q = build(c, O, cls, check=False, module=True, face=True, elastic=True)
        if g is None:
            return
        Ft = H.mkq(c, "Force", "Ft")
        c.assume(L.ge(H.SI(Ft), 0))
        _set(g, "tangential_force", Ft)
        mate = Mate(module=H.mkq(c, "Length", "mate_m") if mate_module else None,
                    elastic_modulus=H.mkq(c, "Stress", "mate_E") if mate_elastic else None)
        if mate_elastic:
            c.assume(L.gt(H.SI(mate.elastic_modulus), 0))          # the mate's constructor rejects E <= 0
        if mate_module:
            mate.reference_diameter = H.mkq(c, "Length", "mate_d")
        set_role(g, cls, role, mate)
        st, r = H.call(g.compute_contact_stress)
        if role == "none" or not (mate_module and mate_elastic):
            O.prove("contact:mate-lacks-module-or-elastic-modulus(or unmated)=>ValueError",
                    st == "raise" and isinstance(r, ValueError), props=("C09",), note=repr(r))
            return
        if st == "raise":
            O.fail("contact:no-exception", props=("C09",), note=repr(r))
            return
        O.cover("returns")
        S = g.contact_stress
        O.prove("contact:is-a-Stress", H.kind(S) == "Stress", props=("C09", "C17"))
        if c.concrete:
            import math
            E1, E2, D1, D2 = (float(H.SI(x)) for x in (q["E"], mate.elastic_modulus, g.reference_diameter, mate.reference_diameter))
            b, F, a = float(H.SI(q["b"])), float(H.SI(Ft)), math.radians(20)
            if cls == "SpurGear":
                inside = 4 * F / (b * math.cos(a) * math.sin(a)) * (1 / D1 + 1 / D2) * (E1 * E2 / (E1 + E2))
            else:
                beta = float(H.SI(q["beta"]))
                a = math.atan(math.tan(a) / math.cos(beta))
                inside = 4 * F * math.cos(beta) / (b * math.cos(a) * math.sin(a)) * (1 / D1 + 1 / D2) * (E1 * E2 / (E1 + E2))
            O.prove("contact:=documented-Hertz-expression", inside >= 0 and L.eq(float(H.SI(S)), 0.262922 * math.sqrt(inside)), props=("C09", "C07"))
            return
        E1, E2 = sym.term_of(H.SI(q["E"])), sym.term_of(H.SI(mate.elastic_modulus))
        D1, D2 = sym.term_of(H.SI(g.reference_diameter)), sym.term_of(H.SI(mate.reference_diameter))
        b = sym.term_of(H.SI(q["b"]))
        F = sym.term_of(H.SI(Ft))
        UF = sym.UF
        if cls == "SpurGear":
            a = sym.frac_term(20 * AU.fac("Angle", "deg"))
            inside = 4 * F / (b * UF["cos"](a) * UF["sin"](a)) * (1 / D1 + 1 / D2) * (E1 * E2 / (E1 + E2))
        else:
            beta = sym.term_of(H.SI(q["beta"]))
            a = UF["atan"](UF["tan"](sym.frac_term(20 * AU.fac("Angle", "deg"))) / UF["cos"](beta))
            inside = 4 * F * UF["cos"](beta) / (b * UF["cos"](a) * UF["sin"](a)) * (1 / D1 + 1 / D2) * (E1 * E2 / (E1 + E2))
        from fractions import Fraction
        k = sym.frac_term(Fraction("0.262922"))
        s_ = sym.term_of(H.SI(S))
        # sigma_c = 0.262922 * sqrt(inside)  <=>  sigma_c >= 0 and sigma_c^2 = 0.262922^2 * inside
        O.prove("contact:=documented-Hertz-expression", z3.And(s_ >= 0, s_ * s_ == k * k * inside), props=("C09", "C07"))
    return Job(f"gears.contact[{cls},{role},mate:{'module' if mate_module else 'no-module'},{'E' if mate_elastic else 'no-E'}]", body,
               ("C09", "C17", "C07"), functions=[f"{MO}.{_mod(cls)}.{cls}.compute_contact_stress"],
               meta=dict(family="gear-contact", cls=cls, role=role))


# ---- C17 (L1): advertised keys = keys appended by update_time_variables ---------------------------------------------------------

def job_record(cls, d, role, mate_has_diameter=True):
    def body(c, O):
        g, q = build(c, O, cls, check=False, literal_helix=True, **d)
        if g is None:
            return
        mate = Mate(reference_diameter=(H.mkq(c, "Length", "mate_d") if mate_has_diameter else None))
        set_role(g, cls, role, mate)
        adv = list(g.time_variables.keys())
        before = {k: list(v) for k, v in g.time_variables.items()}
        st, r = H.call(g.update_time_variables)
        if st == "raise":
            O.fail("record:update_time_variables-no-exception", props=("C17",), note=repr(r))
            return
        O.cover("returns")
        after = g.time_variables
        grew = [k for k in after if len(after[k]) == len(before.get(k, [])) + 1]
        same = [k for k in after if len(after[k]) == len(before.get(k, []))]
        O.prove("record:every-advertised-variable-gets-exactly-one-sample", sorted(grew) == sorted(adv) and not same,
                props=("C17",), note=f"advertised {adv}; appended {grew}; not appended {same}")
        O.prove("record:no-new-keys", sorted(after.keys()) == sorted(adv), props=("C17",))
        attr = {"angular position": "angular_position", "angular speed": "angular_speed", "angular acceleration": "angular_acceleration",
                "torque": "torque", "driving torque": "driving_torque", "load torque": "load_torque",
                "tangential force": "tangential_force", "bending stress": "bending_stress", "contact stress": "contact_stress"}
        O.prove("record:sample-is-the-current-attribute-object", all(after[k][-1] is getattr(g, attr[k]) for k in grew), props=("C17",))
    mt = "" if cls != "WormWheel" else (",worm-with-diameter" if mate_has_diameter else ",worm-WITHOUT-diameter")
    return Job(f"gears.record[{cls},{tagof(d)},{role}{mt}]", body, ("C17",),
               functions=[f"{MO}.{_mod(cls)}.{cls}.update_time_variables", f"{MO}.mechanical_object_base.RotatingObject.update_time_variables"]
               + ([f"{MO}.worm_wheel.WormWheel.bending_stress_is_computable"] if cls == "WormWheel" else []),
               expect_covers=("returns",), meta=dict(family="gear-record", cls=cls, role=role, mate_has_diameter=mate_has_diameter))


def job_flag_wheel(role, mate_has_diameter):
    """mated worm wheel: bending flag also needs the worm's reference diameter (property C09)"""
    def body(c, O):
        g, q = build(c, O, "WormWheel", check=False, module=True, face=True)
        if g is None:
            return
        mate = Mate(reference_diameter=(H.mkq(c, "Length", "mate_d") if mate_has_diameter else None))
        set_role(g, "WormWheel", role, mate)
        O.prove("flags:mated-worm-wheel-bending-computable-iff-own-data-and-worm-reference-diameter",
                bool(g.bending_stress_is_computable) == bool(mate_has_diameter or role == "none"), props=("C09",))
    return Job(f"gears.flag[WormWheel,{role},{'worm-with-diameter' if mate_has_diameter else 'worm-without-diameter'}]", body, ("C09",),
               functions=[f"{MO}.worm_wheel.WormWheel.bending_stress_is_computable"], meta=dict(family="gear-flag"))


# ---- C07: worm table look-ups must not depend on the unit the pressure angle is written in (native, exhaustive) ----

def job_worm_tables():
    def body(c, O):
        import math
        import gearpy.units as GU
        import gearpy.mechanical_objects.mechanical_object_base as B
        fmax = getattr(B, "_real_max_helix", B.worm_gear_and_wheel_maximum_helix_angle_function)
        flew = getattr(B, "_real_wheel_lewis", B.worm_wheel_lewis_factor_function)
        table = spec.SI_TABLE["AngularPosition"]          # the unit symbols of an angle (L0 table; the code's table is checked against it in contracts/units.py)
        for deg in PRESSURE_ANGLES_DEG:
            ref = GU.Angle(float(deg), "deg")
            for u in table:
                a = ref.to(u)
                tag = f"alpha={deg}deg-written-in-{u}"
                O.cover(tag)
                for nm, f in (("maximum-helix-angle", fmax), ("worm-wheel-lewis-factor", flew)):
                    try:
                        got = f(pressure_angle=a)
                        want = f(pressure_angle=ref)
                        same = (got == want) if not hasattr(got, "value") else (abs(float(got.to("deg").value) - float(want.to("deg").value)) < 1e-9)
                        O.prove(f"worm-table[{nm}]:{tag}:same-row-as-in-degrees", bool(same), props=("C07", "C09"))
                    except (KeyError, ValueError, TypeError) as e:
                        O.fail(f"worm-table[{nm}]:{tag}:same-row-as-in-degrees", props=("C07", "C09"), note=repr(e))
    return Job("gears.worm-tables", body, ("C07", "C09"),
               functions=[f"{MO}.mechanical_object_base.worm_gear_and_wheel_maximum_helix_angle_function",
                          f"{MO}.mechanical_object_base.worm_wheel_lewis_factor_function"], meta=dict(family="worm-tables"))


def job_lewis_table():
    """The Lewis-factor look-up is a scipy interp1d object built at import time (no Python body to put under contract): it is
    compared NATIVELY with the documented look-up over the L0 copy of the table -- exhaustively for every integer teeth
    number 10..1500 (three times the table's end) and on a fixed grid of 6000 non-integer arguments (virtual teeth numbers of
    helical gears); the CSV rows themselves are compared with the L0 copy.  In the symbolic jobs the look-up is the
    uninterpreted function g_lewis applied to the argument the constructor passes (its argument is what they check)."""
    def body(c, O):
        import csv
        import gearpy.mechanical_objects.mechanical_object_base as B
        from fractions import Fraction
        f = getattr(B, "_real_lewis_factor_function", B.lewis_factor_function)
        with open(str(B.LEWIS_FACTOR_DATA_FILE)) as fh:
            rows = [tuple(r) for r in csv.reader(fh)][1:]
        O.prove("lewis-table:csv-rows=tabulated-standard-values(L0 copy)",
                [(int(a), Fraction(b)) for a, b in rows] == [(n, Fraction(y)) for n, y in spec.LEWIS_TABLE], props=("C09",))
        with open(str(B.WORM_GEAR_AND_WHEEL_DATA_FILE)) as fh:
            wrows = [tuple(Fraction(x) for x in r) for r in list(csv.reader(fh))[1:]]
        O.prove("worm-table:csv-rows=tabulated-values(L0 copy)", wrows == [tuple(Fraction(x) for x in r) for r in spec.WORM_TABLE], props=("C09", "C19"))
        O.prove("lewis-table:minimum-teeth-number=10", int(B.MINIMUM_TEETH_NUMBER) == spec.LEWIS_TABLE[0][0], props=("C09", "C19"))
        import gearpy.units as GU
        fmax = getattr(B, "_real_max_helix", B.worm_gear_and_wheel_maximum_helix_angle_function)
        flew = getattr(B, "_real_wheel_lewis", B.worm_wheel_lewis_factor_function)
        okw = []
        for pa_, mx_, lw_ in spec.WORM_TABLE:
            a = GU.Angle(float(pa_), "deg")
            okw.append(abs(float(fmax(pressure_angle=a).to("deg").value) - float(mx_)) < 1e-12 and abs(float(flew(pressure_angle=a)) - float(lw_)) < 1e-12)
        O.prove("worm-lookups:maximum-helix-angle-and-wheel-Lewis-factor=tabulated-values-for-the-four-pressure-angles", all(okw), props=("C09", "C19"), note=str(okw))
        bad = []
        for n in range(10, 1501):
            got = float(f(n))
            if abs(got - float(spec.lewis_reference(n))) > 1e-12:
                bad.append((n, got, float(spec.lewis_reference(n))))
        O.prove("lewis-lookup:every-integer-teeth-number-10..1500=interpolation-clamped-at-the-table's-end", not bad, props=("C09",), note=str(bad[:3]))
        bad = []
        for k in range(6000):
            x = Fraction(10) + Fraction(k * 1490, 5999) + Fraction(1, 7)
            got = float(f(float(x)))
            if abs(got - float(spec.lewis_reference(Fraction(float(x))))) > 1e-12:
                bad.append((float(x), got))
        O.prove("lewis-lookup:non-integer-arguments(grid of 6000 in [10,1500])=interpolation-clamped-at-the-table's-end", not bad, props=("C09",),
                note=str(bad[:3]))
        O.cover("done")
    return Job("gears.lewis-table", body, ("C09", "C19"), functions=[f"{MO}.mechanical_object_base.lewis_factor_function (scipy interp1d object)",
                                                                       f"{MO}.gear_data/lewis_factor_table.csv", f"{MO}.gear_data/worm_gear_and_wheel_data.csv"],
               expect_covers=("done",), meta=dict(family="worm-tables"))


def all_jobs(exact_tables=None):
    jobs = [job_lewis_table()]
    for cls in ("SpurGear", "HelicalGear", "WormWheel", "WormGear"):
        for d in subsets(cls):
            if cls.startswith("Worm"):
                for pa in range(4):
                    jobs.append(job_ctor(cls, d, pa))
            else:
                jobs.append(job_ctor(cls, d))
        for role in ("master", "slave", "none"):
            jobs.append(job_force(cls, role))
            if cls != "WormGear":
                jobs.append(job_bending(cls, role))
        for d in subsets(cls):
            for role in ("master", "slave", "none"):
                if cls == "WormWheel" and role != "none":
                    jobs.append(job_record(cls, d, role, True))
                    jobs.append(job_record(cls, d, role, False))
                else:
                    jobs.append(job_record(cls, d, role))
    for cls in ("SpurGear", "HelicalGear"):
        for role in ("master", "slave"):
            for mm, me in itertools.product((True, False), repeat=2):
                jobs.append(job_contact(cls, role, mm, me))
        jobs.append(job_contact(cls, "none", True, True))
    for role in ("master", "slave"):
        for hd in (True, False):
            jobs.append(job_flag_wheel(role, hd))
    jobs.append(job_worm_tables())
    return jobs
