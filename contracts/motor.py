"""contracts.motor -- gearpy.mechanical_objects.dc_motor.DCMotor (C08; constructor part of C19; pwm range of C14).

The real DCMotor class runs; its quantities are abstract (SymQ: symbolic value AND symbolic unit), so one
proof covers every unit choice.  Top-level postconditions are transcribed from property C08.
"""
from __future__ import annotations

import z3

from pycv import harness as H
from pycv import logic as L
from pycv.explore import Job

MOD = "gearpy.mechanical_objects.dc_motor"
STUB_MODULES = ["gearpy.mechanical_objects.dc_motor", "gearpy.mechanical_objects.mechanical_object_base"]


def patch_worker():
    from pycv import patch
    patch.PATCH_LOG.extend(H.stub_unit_classes(STUB_MODULES))


def DCMotor():
    import gearpy.mechanical_objects.dc_motor as M
    return M.DCMotor


# ---- spec functions (property C08, literally) -----------------------------------------------------------

def spec_tmax_of_D(D, Tmax, i0, imax, positive):
    # Tmax(D) = Tmax*(D*imax - i0)/(imax - i0), mirrored for negative D
    num = L.sub(L.mul(D, imax), i0) if positive else L.add(L.mul(D, imax), i0)
    return L.div(L.mul(Tmax, num), L.sub(imax, i0))


def spec_torque(D, w, w0, Tmax, i0=None, imax=None):
    """-> list of (condition, torque) cases"""
    if i0 is None:
        return [(True, L.mul(Tmax, L.sub(1, L.div(w, w0))))]
    dz = L.div(i0, imax)
    out = [(L.le(L.absv(D), dz), 0)]
    for positive in (True, False):
        cond = L.gt(D, dz) if positive else L.lt(D, L.sub(0, dz))
        TD = spec_tmax_of_D(D, Tmax, i0, imax, positive)
        out.append((cond, ("lazy", lambda TD=TD: L.mul(TD, L.sub(1, L.div(w, L.mul(D, w0)))))))
    return out


def spec_current(D, T, Tmax, i0, imax):
    dz = L.div(i0, imax)
    out = [(L.le(L.absv(D), dz), L.mul(D, imax))]
    for positive in (True, False):
        cond = L.gt(D, dz) if positive else L.lt(D, L.sub(0, dz))
        TD = spec_tmax_of_D(D, Tmax, i0, imax, positive)
        if positive:
            val = ("lazy", lambda TD=TD: L.add(L.mul(L.sub(L.mul(D, imax), i0), L.div(T, TD)), i0))
        else:
            val = ("lazy", lambda TD=TD: L.sub(L.mul(L.add(L.mul(D, imax), i0), L.div(T, TD)), i0))
        out.append((cond, val))
    return out


def _force(v):
    return v[1]() if isinstance(v, tuple) and v and v[0] == "lazy" else v


def cases_goal(cases, actual):
    gs = []
    for cond, val in cases:
        if isinstance(cond, bool) and not cond:
            continue
        try:
            gs.append(L.Implies(cond, L.eq(actual, _force(val))))
        except ZeroDivisionError:
            gs.append(L.Not(cond) if not isinstance(cond, bool) else (not cond))
    return L.And(*gs)


# ---- jobs ---------------------------------------------------------------------------------------------------

def build_motor(c, O, with_current, valid=True):
    """Symbolic motor constants. valid=True: constants satisfy the constructor's documented requirements."""
    J = H.mkq(c, "InertiaMoment", "J")
    w0 = H.mkq(c, "AngularSpeed", "w0")
    Tm = H.mkq(c, "Torque", "Tmax")
    i0 = H.mkq(c, "Current", "i0") if with_current else None
    im = H.mkq(c, "Current", "imax") if with_current else None
    kw = dict(name="motor", inertia_moment=J, no_load_speed=w0, maximum_torque=Tm)
    if with_current:
        kw.update(no_load_electric_current=i0, maximum_electric_current=im)
    W0, TM = H.SI(w0), H.SI(Tm)
    bad = [L.le(W0, 0), L.le(TM, 0)]
    if with_current:
        I0, IM = H.SI(i0), H.SI(im)
        bad += [L.lt(I0, 0), L.le(IM, 0)]
    st, r = H.call(DCMotor(), **kw)
    if st == "raise":
        O.cover("ctor:rejects")
        if isinstance(r, ValueError):
            # C19: rejected only for non-physical parameters.  i0 >= imax is decided by the library's tolerance
            # comparison: the band |i0 - imax| <= 1e-12 (in i0's unit) is left open.
            strict = list(bad)
            if with_current:
                strict.append(L.ge(H.SI(i0), H.SI(im)))
                near = L.le(L.absv(L.sub(H.SI(i0), H.SI(im))), L.mul(H.AU.TOL, H.AU.fac("Current", i0.unit))) \
                    if not c.concrete else False
                O.prove("ctor:ValueError-only-for-non-physical-parameters", L.Or(*strict, near), props=("C19",))
            else:
                O.prove("ctor:ValueError-only-for-non-physical-parameters", L.Or(*strict), props=("C19",))
        else:
            O.fail("ctor:no-unexpected-exception", props=("C19",), note=repr(r))
        return None
    O.cover("ctor:accepts")
    ok = [L.Not(b) for b in bad]
    if with_current:
        near = L.le(L.absv(L.sub(H.SI(i0), H.SI(im))), L.mul(H.AU.TOL, H.AU.fac("Current", i0.unit))) \
            if not c.concrete else False
        ok.append(L.Or(L.lt(H.SI(i0), H.SI(im)), near))
    O.prove("ctor:accepts-only-physical-parameters", L.And(*ok), props=("C19",))
    O.prove("ctor:initial-duty-cycle-is-1", L.eq(r.pwm, 1), props=("C14", "C19"))
    return r, dict(J=J, w0=w0, Tm=Tm, i0=i0, im=im)


def job_torque(with_current):
    def body(c, O):
        b = build_motor(c, O, with_current)
        if b is None:
            return
        motor, q = b
        if with_current and not c.concrete:
            # class invariant established by the constructor (proved above): i0 < imax strictly, outside the band
            c.assume_checked(L.lt(H.SI(q["i0"]), H.SI(q["im"])))
        w = H.mkq(c, "AngularSpeed", "w")
        D = c.real("D")
        st, e = H.call(setattr, motor, "angular_speed", w)
        if st == "raise":
            O.fail("setter:angular_speed-accepts-an-AngularSpeed", props=("C08",), note=repr(e))
            return
        st, e = H.call(setattr, motor, "pwm", D)
        inrange = L.And(L.le(-1, D), L.le(D, 1))
        if st == "raise":
            O.cover("pwm:rejects")
            O.prove("pwm:ValueError-only-outside-[-1,1]", L.And(isinstance(e, ValueError), L.Not(inrange)),
                    props=("C14", "C19", "C08"))
            O.prove("pwm:rejected-value-not-stored", L.eq(motor.pwm, 1), props=("C14", "C19"))
            return
        O.cover("pwm:accepts")
        O.prove("pwm:accepted-only-within-[-1,1]", inrange, props=("C14", "C19", "C08"))
        O.prove("pwm:stored", L.eq(motor.pwm, D), props=("C14",))
        before = {k: v for k, v in motor.__dict__.items()}
        st, e = H.call(motor.compute_torque)
        if st == "raise":
            if isinstance(e, ZeroDivisionError) and with_current:
                # D*w0 = 0 cannot happen outside the dead zone; i0 = imax excluded by the constructor
                O.fail("torque:no-exception-for-D-in-[-1,1]", props=("C08",), note=repr(e))
            else:
                O.fail("torque:no-exception-for-D-in-[-1,1]", props=("C08",), note=repr(e))
            return
        O.cover("torque:returns")
        T = motor.driving_torque
        O.prove("torque:is-a-Torque", H.kind(T) == "Torque", props=("C08", "C17"))
        if H.kind(T) != "Torque":
            O.fail("torque:compute_torque-sets-driving_torque", props=("C08", "C02"), note=f"driving_torque is {T!r} after compute_torque")
            return
        W0, TM, W = H.SI(q["w0"]), H.SI(q["Tm"]), H.SI(w)
        if with_current:
            cases = spec_torque(D, W, W0, TM, H.SI(q["i0"]), H.SI(q["im"]))
        else:
            cases = spec_torque(D, W, W0, TM)
        O.prove("torque:equals-documented-characteristic", cases_goal(cases, H.SI(T)), props=("C08", "C02", "C07"), outputs=[H.SI(T)])
        changed = [k for k, v in motor.__dict__.items() if before.get(k, None) is not v]
        O.prove("torque:modifies-only-driving_torque", len(changed) <= 1 and (not changed or motor.__dict__[changed[0]] is motor.driving_torque),
                props=("C08", "C02"))
        if not with_current:
            O.prove("current:not-computable-without-current-data", motor.electric_current_is_computable is False,
                    props=("C08", "C17"))
            return
        O.prove("current:computable-with-current-data", motor.electric_current_is_computable is True,
                props=("C08", "C17"))
        before = {k: v for k, v in motor.__dict__.items()}
        st, e = H.call(motor.compute_electric_current)
        if st == "raise":
            O.fail("current:no-exception-for-D-in-[-1,1]", props=("C08",), note=repr(e))
            return
        O.cover("current:returns")
        I = motor.electric_current
        O.prove("current:is-a-Current", H.kind(I) == "Current", props=("C08", "C17"))
        if H.kind(I) != "Current":
            O.fail("current:compute_electric_current-sets-electric_current", props=("C08",), note=f"electric_current is {I!r}")
            return
        ccases = spec_current(D, H.SI(T), TM, H.SI(q["i0"]), H.SI(q["im"]))
        O.prove("current:equals-documented-law", cases_goal(ccases, H.SI(I)), props=("C08", "C07", "C15"), outputs=[H.SI(I), H.SI(T)])
        changed = [k for k, v in motor.__dict__.items() if before.get(k, None) is not v]
        O.prove("current:modifies-only-electric_current", len(changed) <= 1 and (not changed or motor.__dict__[changed[0]] is motor.electric_current),
                props=("C08",))
    tag = "with-current-data" if with_current else "without-current-data"
    return Job(f"motor.law[{tag}]", body, ("C08", "C02", "C07", "C14", "C15", "C17", "C19"),
               functions=[f"{MOD}.DCMotor.__init__", f"{MOD}.DCMotor.compute_torque",
                          f"{MOD}.DCMotor.compute_electric_current", f"{MOD}.DCMotor.pwm",
                          f"{MOD}.DCMotor.electric_current_is_computable", f"{MOD}.DCMotor.angular_speed",
                          f"{MOD}.DCMotor.driving_torque"],
               expect_covers=("torque:returns", "pwm:rejects", "ctor:rejects") + (("current:returns",) if with_current else ()),
               meta=dict(family="motor", with_current=with_current))


def job_lemmas():
    """Lemmas over the spec functions (C08 'Hence ...' sentence)."""
    def body(c, O):
        if c.concrete:
            return
        w0 = c.real("w0").term
        Tm = c.real("Tmax").term
        i0 = c.real("i0").term
        im = c.real("imax").term
        D = c.real("D").term
        w = c.real("w").term
        c.assume(z3.And(w0 > 0, Tm > 0, i0 >= 0, im > 0, i0 < im))

        def T(D_, w_):
            return cases_term(spec_torque(D_, w_, w0, Tm, i0, im))

        def I(D_, w_):
            return cases_term(spec_current(D_, T(D_, w_), Tm, i0, im))
        O.prove("lemma:D=1-standstill-gives-Tmax-and-imax", z3.And(T(1, 0) == Tm, I(1, 0) == im), props=("C08",))
        O.prove("lemma:D=1-no-load-speed-gives-zero-torque-and-i0", z3.And(T(1, w0) == 0, I(1, w0) == i0), props=("C08",))
        dz = i0 / im
        c.assume(z3.And(D >= -1, D <= 1))
        # continuity at the dead-zone boundary: the outside law tends to the inside value as D -> +-dz
        TDp = spec_tmax_of_D(dz, Tm, i0, im, True)
        O.prove("lemma:torque-continuous-at-dead-zone-boundary(T_max(D)->0)", TDp == 0, props=("C08",))
        TDn = spec_tmax_of_D(-dz, Tm, i0, im, False)
        O.prove("lemma:torque-continuous-at-negative-boundary", TDn == 0, props=("C08",))
        # current: outside law (D*imax - i0)*(1 - w/(D*w0)) + i0 at D = dz equals i0 = dz*imax (inside value)
        O.prove("lemma:current-continuous-at-dead-zone-boundary",
                z3.Implies(dz > 0, (dz * im - i0) * (1 - w / (dz * w0)) + i0 == dz * im), props=("C08",))
        O.prove("lemma:odd-symmetry", z3.And(T(-D, -w) == -T(D, w), I(-D, -w) == -I(D, w)), props=("C08",))
    return Job("motor.lemmas", body, ("C08",), functions=["spec: C08 characteristic"], meta=dict(family="motor-lemma"))


def cases_term(cases):
    """nested If over the case list (the cases are exhaustive and exclusive)"""
    out = None
    for cond, val in reversed(cases):
        v = _force(val)
        v = L._t(v) if not isinstance(v, z3.ExprRef) else v
        out = v if out is None else z3.If(L._b(cond), v, out)
    return out


def all_jobs(exact_tables=None):
    return [job_torque(True), job_torque(False), job_lemmas()]
