"""contracts.units -- L1 contracts of the unit layer (gearpy.units.units, gearpy.units.unit_base).

The *real* classes run with symbolic values; units are enumerated exhaustively
from each class's own table (a new unit is picked up automatically).

Properties served: C05 (conversion, comparisons), C06 (dimensional soundness,
inverse laws), C19 (sign-constrained quantities never invalid; frame: operators
never mutate operands), and the SI-level facts C07 relies on.
"""
from __future__ import annotations

import operator
from fractions import Fraction

from pycv import absunits as AU
from pycv import logic as L
from pycv import spec
from pycv.explore import Job
from pycv.sym import SymNum

import gearpy.units as GU
import gearpy.units.units as UM

CLS = {k: getattr(GU, k) for k in spec.KINDS}
FUNCS_BASE = "gearpy.units.unit_base.UnitBase"
TOL = Fraction(1, 10 ** 12)          # the library's absolute comparison tolerance
RHO = Fraction(1, 10 ** 9)           # "more than rounding": relative gap


def code_table(K):
    cls = CLS[K]
    for C in cls.__mro__:
        t = C.__dict__.get(f"_{C.__name__}__UNITS")
        if t:
            return t
    raise KeyError(K)


def code_units(K):
    return list(code_table(K))


def f_spec(K, u):
    f = spec.si_factor(K, u)
    if f is None:
        raise SpecIncomplete(f"unit {u!r} of {K} is not in the L0 SI table")
    return f


class SpecIncomplete(Exception):
    pass


def kind_of(obj):
    return type(obj).__name__


def snapshot(q):
    return dict(q.__dict__)


def frame_unchanged(O, clause, q, snap, props=("C19",)):
    """operators never mutate operands: every attribute is still the same object / equal value"""
    now = q.__dict__
    ok = set(now) == set(snap)
    goals = []
    if ok:
        for k, v in snap.items():
            w = now[k]
            if w is v:
                continue
            if isinstance(v, str) or isinstance(w, str):
                ok = ok and (v == w)
            else:
                goals.append(L.eq(v, w))
    O.prove(clause, L.And(ok, *goals) if goals else ok, props=props)


def valid_goal(q):
    """class invariant valid(q) (C19)"""
    K = kind_of(q)
    if K not in CLS or type(q) is not CLS[K]:
        return False
    u = q.unit
    v = q.value
    conds = [isinstance(u, str) and u in code_table(K)]
    conds.append(spec.sign_ok_term(K, L.num(v)) if not isinstance(v, (int, float)) else _sign_ok_concrete(K, v))
    # every name-mangled copy of value/unit agrees with the public one
    for k, w in q.__dict__.items():
        if k.endswith("__value"):
            conds.append(True if w is v else L.eq(w, v))
        if k.endswith("__unit"):
            conds.append(w == u)
    return L.And(*conds)


def _sign_ok_concrete(K, v):
    s = spec.SIGN.get(K)
    return v > 0 if s == "pos" else (v >= 0 if s == "nonneg" else True)


def sign_ok(K, v):
    s = spec.SIGN.get(K)
    if s == "pos":
        return L.gt(v, 0)
    if s == "nonneg":
        return L.ge(v, 0)
    return True


def construct(c, O, K, v, u, tag):
    """Run the real constructor; contract: ValueError iff the sign constraint is violated (C19)."""
    ok = sign_ok(K, v)
    try:
        q = CLS[K](v, u)
    except ValueError:
        O.cover(f"{tag}:ctor-rejects")
        O.prove(f"{tag}:ctor-ValueError-only-when-sign-violated", L.Not(ok), props=("C19",))
        return None
    except (TypeError, KeyError, ZeroDivisionError, AttributeError) as e:
        O.fail(f"{tag}:ctor-no-unexpected-exception", props=("C19",), note=repr(e))
        return None
    O.cover(f"{tag}:ctor-accepts")
    O.prove(f"{tag}:ctor-accepts-only-valid", valid_goal(q), props=("C19",))
    O.prove(f"{tag}:ctor-stores-arguments", L.And(q.value is v or L.eq(q.value, v), q.unit == u), props=("C19", "C05"))
    return q


def si(K, q_value, u):
    return L.mul(q_value, f_spec(K, u))


# ---------------------------------------------------------------------------
# C05 (a): the code's unit tables against the L0 SI table
# ---------------------------------------------------------------------------

def job_table(K, exact_tables):
    decl = next(C.__name__ for C in CLS[K].__mro__ if f"_{C.__name__}__UNITS" in C.__dict__)

    def body(c, O):
        tab = exact_tables[decl] if not c.concrete else {k: Fraction(repr(float(v))) for k, v in code_table(K).items()}
        for u, fv in tab.items():
            fs = f_spec(K, u)
            O.cover(f"unit:{u}")
            if c.concrete:
                O.prove(f"factor[{u}]=SI", abs(float(fv) - float(fs)) <= 1e-15 * float(fs), props=("C05", "C07"))
            else:
                O.prove(f"factor[{u}]=SI", fv == fs, props=("C05", "C07"),
                        note=f"code {fv} ({float(fv)!r}) vs SI {fs} ({float(fs)!r})")
    return Job(f"units.table[{K}]", body, ("C05", "C07"), functions=[f"gearpy.units.units.{decl}.__UNITS"],
               replay=None, meta=dict(kind=K))


# ---------------------------------------------------------------------------
# C05 (b): conversion
# ---------------------------------------------------------------------------

def job_to(K, src, tgt, inplace):
    fn = f"gearpy.units.units.{K}.to"

    def body(c, O):
        v = c.real("v")
        q = construct(c, O, K, v, src, "self")
        if q is None:
            return
        snap = snapshot(q)
        try:
            r = q.to(tgt, inplace=inplace)
        except (ValueError, TypeError, KeyError, ZeroDivisionError, AttributeError) as e:
            O.fail("to:no-exception-for-valid-self-and-known-unit", props=("C05", "C19"), note=repr(e))
            return
        O.cover("to:returns")
        O.prove("helper:to-matches-abstract-contract",
                L.And(r.unit == tgt, L.eq(r.value, AU.convert(K, v, src, tgt)), kind_of(r) == K), props=HELPER_PROPS)
        O.prove("to:result-unit-is-target", r.unit == tgt, props=("C05",))
        O.prove("to:SI-magnitude-unchanged", L.eq(si(K, r.value, tgt), si(K, v, src)), props=("C05", "C07"))
        O.prove("to:result-kind-and-valid", L.And(type(r) is CLS[K], valid_goal(r)), props=("C05", "C19"))
        if inplace:
            O.prove("to:inplace-returns-self", r is q, props=("C05",))
            O.prove("to:inplace-self-valid(all-mangled-copies)", valid_goal(q), props=("C05", "C19"))
        else:
            O.prove("to:copy-is-a-new-object", r is not q, props=("C05",))
            frame_unchanged(O, "to:copy-leaves-self-unchanged", q, snap, props=("C05", "C19"))
        # there and back
        try:
            back = r.to(src)
        except (ValueError, TypeError, KeyError, ZeroDivisionError, AttributeError) as e:
            O.fail("to:there-and-back-no-exception", props=("C05",), note=repr(e))
            return
        O.prove("to:there-and-back-returns-original-value", L.And(L.eq(back.value, v), back.unit == src), props=("C05",))
    return Job(f"units.to[{K},{src}->{tgt},{'inplace' if inplace else 'copy'}]", body, ("C05", "C07", "C19"),
               functions=[fn, f"gearpy.units.units.{K}.__init__", FUNCS_BASE + ".to"],
               expect_covers=("to:returns",), meta=dict(kind=K, src=src, tgt=tgt, inplace=inplace, family="to"))


def job_to_bad_args(K):
    fn = f"gearpy.units.units.{K}.to"
    u0 = code_units(K)[0]

    def body(c, O):
        v = c.real("v")
        q = construct(c, O, K, v, u0, "self")
        if q is None:
            return
        for tag, args, exc in (("non-str-unit", (5, False), TypeError), ("non-bool-inplace", (u0, "yes"), TypeError),
                               ("unknown-unit", ("no-such-unit", False), KeyError),
                               ("unknown-unit-inplace", ("no-such-unit", True), KeyError)):
            snap = snapshot(q)
            try:
                q.to(args[0], inplace=args[1])
            except (TypeError, KeyError, ValueError):
                O.cover(f"to:{tag}")
                frame_unchanged(O, f"to:{tag}:self-unchanged", q, snap, props=("C05", "C19"))
                continue
            O.fail(f"to:{tag}:rejected", props=("C05",), note="returned")
    return Job(f"units.to-bad-args[{K}]", body, ("C05", "C19"), functions=[fn], meta=dict(kind=K, family="to-bad"))


# ---------------------------------------------------------------------------
# C05 (c): comparisons
# ---------------------------------------------------------------------------

CMP = {"eq": operator.eq, "ne": operator.ne, "lt": operator.lt, "le": operator.le, "gt": operator.gt, "ge": operator.ge}


def admissible_cmp_pairs():
    out = []
    for a in spec.KINDS:
        for b in spec.KINDS:
            if spec.BASE_KIND[a] == spec.BASE_KIND[b]:
                out.append((a, b))
    return out


def job_cmp(Ka, Kb, ua, ub, op, history=False):
    def body(c, O):
        if history:
            # both operands were constructed in another unit and converted in place beforehand
            A = operand(c, O, Ka, "x", ua, "a", via=_other_unit(Ka, ua))
            B = operand(c, O, Kb, "y", ub, "b", via=_other_unit(Kb, ub)) if A is not None else None
            if A is None or B is None:
                return
            (a, _, x), (b, _, y) = A, B
        else:
            x = c.real("x")
            y = c.real("y")
            a = construct(c, O, Ka, x, ua, "a")
            if a is None:
                return
            b = construct(c, O, Kb, y, ub, "b")
            if b is None:
                return
        sa, sb = snapshot(a), snapshot(b)
        try:
            res = CMP[op](a, b)
        except (TypeError, ValueError, KeyError, ZeroDivisionError, AttributeError) as e:
            O.fail("cmp:no-exception-for-same-base-kind", props=("C05",), note=repr(e))
            return
        O.cover("cmp:returns")
        t = L.truth(res)
        if not c.concrete:
            # CPython gives the right operand's method priority when its class is a proper subclass of the left's
            swap = {"eq": "eq", "ne": "ne", "lt": "gt", "gt": "lt", "le": "ge", "ge": "le"}
            if Ka != Kb and issubclass(CLS[Kb], CLS[Ka]):
                at = AU.abs_cmp(swap[op], ("q", Kb, ub, y), ("q", Ka, ua, x))
            else:
                at = AU.abs_cmp(op, ("q", Ka, ua, x), ("q", Kb, ub, y))
            O.prove("helper:cmp-matches-abstract-contract", L.Iff(t, at), props=HELPER_PROPS)
            fa_, fb_ = f_spec(Ka, ua), f_spec(Kb, ub)
            if Ka != Kb and issubclass(CLS[Kb], CLS[Ka]):
                st_ = AU.abs_cmp_si(swap[op], L.mul(y, fb_), fb_, L.mul(x, fa_), ua == ub)
            else:
                st_ = AU.abs_cmp_si(op, L.mul(x, fa_), fa_, L.mul(y, fb_), ua == ub)
            O.prove("helper:cmp-matches-SI-level-contract", L.Iff(t, st_), props=HELPER_PROPS)
        X, Y = si(Ka, x, ua), si(Kb, y, ub)
        exact = {"eq": L.eq(X, Y), "ne": L.ne(X, Y), "lt": L.lt(X, Y), "le": L.le(X, Y), "gt": L.gt(X, Y),
                 "ge": L.ge(X, Y)}[op] if not c.concrete else \
            {"eq": X == Y, "ne": X != Y, "lt": X < Y, "le": X <= Y, "gt": X > Y, "ge": X >= Y}[op]
        # the gap between the operands, expressed in the left and in the right operand's unit
        y_in_a = L.div(L.mul(y, f_spec(Kb, ub)), f_spec(Ka, ua))
        x_in_b = L.div(L.mul(x, f_spec(Ka, ua)), f_spec(Kb, ub))
        diff_a = L.absv(L.sub(x, y_in_a))
        diff_b = L.absv(L.sub(x_in_b, y))
        scale_a = L.maxv(L.absv(L.num(x)), L.absv(y_in_a))
        same = (X == Y) if c.concrete else L.eq(X, Y)
        O.prove("cmp:same-magnitude=>equal-whichever-side", L.Implies(same, L.Iff(t, op in ("eq", "le", "ge"))),
                props=("C05",))
        # region split for known finding KF-C05-absolute-tolerance: the library's tolerance is the absolute number
        # 1e-12 applied in ONE operand's unit (the left one, or the right one when CPython gives the right
        # operand's subclass method priority).  Outside that band in both units the order must be exact.
        beyond = L.And(L.gt(diff_a, TOL), L.gt(diff_b, TOL))
        O.prove("cmp:beyond-abs-tol=>ordered-as-SI-magnitudes", L.Implies(beyond, L.Iff(t, exact)),
                props=("C05", "C07"))
        O.prove("cmp:within-abs-tol-but-beyond-rounding=>ordered-as-SI-magnitudes",
                L.Implies(L.And(L.Not(beyond), L.gt(diff_a, L.mul(RHO, scale_a))), L.Iff(t, exact)), props=("C05",))
        frame_unchanged(O, "cmp:operands-unchanged", a, sa, props=("C19",))
        frame_unchanged(O, "cmp:operands-unchanged", b, sb, props=("C19",))
    return Job(f"units.cmp[{Ka}({ua}) {op} {Kb}({ub}){',operands-converted-in-place-beforehand' if history else ''}]", body, ("C05", "C07", "C19"),
               functions=[f"{FUNCS_BASE}.__{op}__", f"gearpy.units.units.{Kb}.to"], expect_covers=("cmp:returns",),
               meta=dict(family="cmp", Ka=Ka, Kb=Kb, ua=ua, ub=ub, op=op))


# ---------------------------------------------------------------------------
# C06: binary operators
# ---------------------------------------------------------------------------

OPS = {"add": operator.add, "sub": operator.sub, "mul": operator.mul, "div": operator.truediv}
OPSYM = {"add": "+", "sub": "-", "mul": "*", "div": "/"}
NUMS = ("int", "float")


def operand(c, O, K, name, u, tag, via=None):
    """K a kind or 'int'/'float'. -> (object, SI magnitude, raw value) or None.
    via: the operand has a HISTORY -- it was constructed in unit `via` and converted in place to `u` before being used
    (an operator must see the object's current state, not something remembered from its construction)."""
    if K in NUMS:
        v = c.real(name, pytype=K, relax=True)
        return v, L.num(v), v
    v = c.real(name)
    if via is None or via == u:
        q = construct(c, O, K, v, u, tag)
        if q is None:
            return None
        return q, si(K, v, u), v
    q = construct(c, O, K, v, via, tag)
    if q is None:
        return None
    try:
        r = q.to(u, inplace=True)
    except (TypeError, ValueError, KeyError) as e:
        O.fail(f"{tag}:in-place-conversion-of-a-valid-quantity-succeeds", props=("C05", "C19"), note=repr(e))
        return None
    O.prove(f"{tag}:in-place-conversion-returns-the-same-object-in-the-target-unit", r is q and q.unit == u, props=("C05",))
    X = si(K, v, via)
    return q, X, L.div(X, f_spec(K, u))


def _other_unit(K, u):
    if K in NUMS:
        return None
    us = [x for x in code_units(K) if x != u]
    return us[-1] if us else None


def spec_kind(K):
    return spec.NUM if K in NUMS else K


def job_op(op, Ka, Kb, ua, ub, history=False):
    expected = spec.dimension(op, spec_kind(Ka), spec_kind(Kb))
    constrained = [k for k in (Ka, Kb, expected) if k in spec.SIGN]

    def body(c, O):
        A = operand(c, O, Ka, "x", ua, "a", via=_other_unit(Ka, ua) if history else None)
        if A is None:
            return
        B = operand(c, O, Kb, "y", ub, "b", via=_other_unit(Kb, ub) if history else None)
        if B is None:
            return
        a, X, x = A
        b, Y, y = B
        sa = snapshot(a) if Ka not in NUMS else None
        sb = snapshot(b) if Kb not in NUMS else None
        exact = {"add": L.add, "sub": L.sub, "mul": L.mul, "div": None}[op]
        TA = ("n", x, Ka) if Ka in NUMS else ("q", Ka, ua, x)
        TB = ("n", y, Kb) if Kb in NUMS else ("q", Kb, ub, y)
        try:
            r = OPS[op](a, b)
        except TypeError as e:
            check_abs(O, op, TA, TB, ("TypeError",))
            O.cover("op:TypeError")
            if expected != "TypeError":
                O.fail("op:defined-by-dimensional-analysis=>no-TypeError", props=("C06",), note=repr(e))
            return
        except ZeroDivisionError:
            check_abs(O, op, TA, TB, ("ZeroDivisionError",))
            O.cover("op:ZeroDivisionError")
            O.prove("op:ZeroDivisionError-only-for-zero-divisor", L.And(op == "div", L.eq(Y, 0)), props=("C06",))
            _frames(O, a, sa, b, sb)
            return
        except ValueError as e:
            check_abs(O, op, TA, TB, ("ValueError",))
            O.cover("op:ValueError")
            O.prove("op:ValueError-only-with-a-sign-constrained-kind", bool(constrained) and expected != "TypeError",
                    props=("C06", "C19"), note=repr(e))
            # a ValueError is legitimate only if the exact result would violate the sign constraint of the result's kind
            # (or, for the two sub-kind differences, of the left operand's kind in which the base class builds it first)
            if expected not in ("TypeError", spec.NUM) and expected in spec.SIGN and not (op == "div" and False):
                if op == "div":
                    exact_res = L.div(X, Y) if not (not L._symbolic(Y) and float(Y) == 0) else None
                else:
                    exact_res = exact(X, Y)
                if exact_res is not None:
                    viol = AU.sign_violated(expected, exact_res)
                    if Ka in spec.SIGN and Ka != expected and op in ("add", "sub"):
                        viol = L.Or(viol, AU.sign_violated(Ka, exact_res))
                    if op in ("mul", "div"):
                        # the library refuses a NEGATIVE numeric factor/divisor of a sign-constrained quantity outright (the
                        # result could only be valid for a zero magnitude); a zero or positive one must not be refused
                        for K_, V_ in ((Ka, X), (Kb, Y)):
                            if K_ in NUMS:
                                viol = L.Or(viol, L.lt(V_, 0))
                    O.prove("op:ValueError-only-when-the-exact-result-violates-the-sign-constraint(or a negative numeric factor)", viol,
                            props=("C06", "C19"), note=repr(e))
            # progress: strictly positive operands (and a strictly positive difference) are never rejected
            pos = L.And(L.gt(X, 0), L.gt(Y, 0), L.gt(L.sub(X, Y), 0) if op == "sub" else True)
            O.prove("op:positive-operands-and-result=>no-ValueError", L.Not(pos), props=("C06",), note=repr(e))
            _frames(O, a, sa, b, sb)
            return
        except (KeyError, AttributeError) as e:
            O.fail("op:no-unexpected-exception", props=("C06",), note=repr(e))
            return
        O.cover("op:returns")
        check_abs(O, op, TA, TB, ("ok", r))
        if r is None:
            # the library's __sub__ falls off its except-branch: not a quantity, not an error
            O.fail("op:returns-a-result-not-None", props=("C06", "C19"), note="operator returned None")
            return
        if expected == "TypeError":
            O.fail("op:not-in-dimension-table=>TypeError", props=("C06",), note=f"returned {type(r).__name__}")
            return
        if expected == spec.NUM:
            isnum = isinstance(r, (SymNum, int, float)) and not isinstance(r, bool)
            O.prove("op:result-is-a-plain-number", isnum, props=("C06",))
            if isnum:
                O.prove("op:SI-magnitude", L.eq(L.mul(r, Y), X), props=("C06", "C07"))
        else:
            okkind = type(r) is CLS[expected]
            O.prove("op:result-kind-by-dimensional-analysis", okkind, props=("C06",),
                    note=f"got {type(r).__name__}, expected {expected}")
            if kind_of(r) in CLS:
                O.prove("op:result-valid", valid_goal(r), props=("C19",))
                R = si(kind_of(r), r.value, r.unit)
                if op == "div":
                    goal = L.eq(L.mul(R, Y), X)      # Y != 0 on this path (no ZeroDivisionError)
                else:
                    goal = L.eq_scaled(R, exact(X, Y), *([X, Y] if op in ("add", "sub") and not L._symbolic(X, Y) else []))
                O.prove("op:SI-magnitude", goal, props=("C06", "C07"))
        _frames(O, a, sa, b, sb)

    return Job(f"units.op[{_nm(Ka, ua)} {OPSYM[op]} {_nm(Kb, ub)}{',operands-converted-in-place-beforehand' if history else ''}]", body, ("C06", "C07", "C19"),
               functions=[f"gearpy.units.units.{K}.__{n}__" for K in (Ka, Kb) if K not in NUMS
                          for n in _dunder(op)],
               meta=dict(family="op", op=op, Ka=Ka, Kb=Kb, ua=ua, ub=ub, expected=str(expected)))


def check_abs(O, op, TA, TB, real):
    """helper contract: the real operator agrees with the abstract semantics that SymQ executes"""
    prior = []
    parts = []
    for cond, outcome in AU.absop(op, TA, TB):
        here = L.And(*prior, cond) if prior else cond
        if isinstance(outcome, str):
            m = real[0] == outcome
        elif real[0] != "ok" or real[1] is None:
            m = False
        elif outcome[0] == "num":
            r = real[1]
            m = (isinstance(r, (SymNum, int, float)) and not isinstance(r, bool)) and L.eq(r, outcome[1])
        else:
            r = real[1]
            _, K, u, v = outcome
            m = kind_of(r) == K and L.And(r.unit == u, L.eq(r.value, v))
        parts.append(L.Implies(here, m))
        prior.append(L.Not(cond))
    O.prove("helper:op-matches-abstract-contract", L.And(*parts), props=HELPER_PROPS)
    # the abstract contract is unit independent: evaluated on the operands expressed in SI units it decides the same
    # outcome and yields the same SI magnitude (this is what SymQ executes)
    def to_si(T):
        if T[0] != "q":
            return T
        _, K, u, v = T
        return ("q", K, AU.SI_UNIT[K], L.mul(v, f_spec(K, u)))
    SA, SB = to_si(TA), to_si(TB)
    d1 = AU.absop(op, TA, TB)
    d2 = AU.absop(op, SA, SB)
    ok = len(d1) == len(d2)
    parts = []
    if ok:
        for (c1, o1), (c2, o2) in zip(d1, d2):
            parts.append(L.Iff(c1, c2))
            if isinstance(o1, str) or isinstance(o2, str):
                ok = ok and (o1 == o2)
            elif o1[0] == "num" or o2[0] == "num":
                ok = ok and o1[0] == o2[0]
                if ok:
                    parts.append(L.Implies(c1, L.eq(o1[1], o2[1])) if op != "div" else
                                 L.Implies(L.And(c1, L.Not(L.eq(TB[3] if TB[0] == "q" else TB[1], 0))), L.eq(o1[1], o2[1])))
            else:
                ok = ok and o1[1] == o2[1]
                if ok:
                    ua_ = TA[2] if TA[0] == "q" else None
                    ub_ = TB[2] if TB[0] == "q" else None
                    ok = ok and AU.result_unit(op, TA, TB, ua_, ub_, o1[1]) == o1[2]
                    nz = L.Not(L.eq(TB[3] if TB[0] == "q" else TB[1], 0)) if op == "div" else True
                    scale = [x[3] for x in (SA, SB) if x[0] == "q" and not L._symbolic(x[3])] if op in ("add", "sub") else []
                    parts.append(L.Implies(L.And(c1, nz), L.eq_scaled(L.mul(o1[3], f_spec(o1[1], o1[2])), o2[3], *scale)))
    O.prove("helper:abstract-contract-is-unit-independent", L.And(ok, *parts), props=HELPER_PROPS)


HELPER_PROPS = ("helper",)


def _nm(K, u):
    return K if K in NUMS else f"{K}({u})"


def _dunder(op):
    return {"add": ("add",), "sub": ("sub",), "mul": ("mul", "rmul"), "div": ("truediv",)}[op]


def _frames(O, a, sa, b, sb):
    if sa is not None:
        frame_unchanged(O, "op:operands-unchanged", a, sa, props=("C19",))
    if sb is not None:
        frame_unchanged(O, "op:operands-unchanged", b, sb, props=("C19",))


# ---------------------------------------------------------------------------
# C06 lemmas run on the real code: (a+b)-b = a ; a-b = -(b-a)
# ---------------------------------------------------------------------------

def job_inverse(Ka, Kb, ua, ub):
    def body(c, O):
        A = operand(c, O, Ka, "x", ua, "a")
        if A is None:
            return
        B = operand(c, O, Kb, "y", ub, "b")
        if B is None:
            return
        a, X, x = A
        b, Y, y = B
        ERR = (TypeError, ValueError, ZeroDivisionError)
        try:
            s = a + b
            r = s - b
        except ERR:
            r = None
        if r is not None:
            O.cover("inv:(a+b)-b-defined")
            O.prove("inv:(a+b)-b=a", L.eq_scaled(si(kind_of(r), r.value, r.unit), X, *((X, Y) if c.concrete else ())), props=("C06",))
        try:
            d1 = a - b
            d2 = -(b - a)
        except ERR:
            return
        if d1 is None or d2 is None:
            return
        O.cover("inv:a-b-and-(b-a)-defined")
        O.prove("inv:a-b=-(b-a)", L.eq_scaled(si(kind_of(d1), d1.value, d1.unit), si(kind_of(d2), d2.value, d2.unit),
                                              *((X, Y) if c.concrete else ())), props=("C06",))
    return Job(f"units.inverse[{Ka}({ua}),{Kb}({ub})]", body, ("C06",),
               functions=[f"gearpy.units.units.{Ka}.__add__", f"gearpy.units.units.{Ka}.__sub__",
                          f"gearpy.units.units.{Kb}.__sub__", f"{FUNCS_BASE}.__neg__"],
               meta=dict(family="inverse", Ka=Ka, Kb=Kb, ua=ua, ub=ub))


# ---------------------------------------------------------------------------
# C19: unary operators
# ---------------------------------------------------------------------------

def job_unary(K, u, which):
    def body(c, O):
        v = c.real("v")
        q = construct(c, O, K, v, u, "self")
        if q is None:
            return
        snap = snapshot(q)
        try:
            r = abs(q) if which == "abs" else -q
        except ValueError:
            O.cover("unary:ValueError")
            want = L.absv(L.num(v)) if which == "abs" else L.sub(0, v)
            O.prove("unary:ValueError-only-when-result-would-be-invalid", L.Not(sign_ok(K, want)), props=("C19",))
            frame_unchanged(O, "unary:operand-unchanged", q, snap)
            return
        except (TypeError, KeyError, ZeroDivisionError, AttributeError) as e:
            O.fail("unary:no-unexpected-exception", props=("C19",), note=repr(e))
            return
        O.cover("unary:returns")
        want = L.absv(L.num(v)) if which == "abs" else L.sub(0, v)
        O.prove("unary:result-valid-same-kind", L.And(type(r) is CLS[K], valid_goal(r)), props=("C19",))
        O.prove("unary:value", L.And(L.eq(r.value, want), r.unit == u), props=("C19", "C06"))
        frame_unchanged(O, "unary:operand-unchanged", q, snap)
    return Job(f"units.unary[{which} {K}({u})]", body, ("C19", "C06"), functions=[f"{FUNCS_BASE}.__{which}__"],
               meta=dict(family="unary", kind=K, unit=u, which=which))


# ---------------------------------------------------------------------------
# job list
# ---------------------------------------------------------------------------

def all_jobs(exact_tables=None):
    jobs = []
    for K in spec.KINDS:
        jobs.append(job_table(K, exact_tables or {}))
        us = code_units(K)
        for s in us:
            for t in us:
                jobs.append(job_to(K, s, t, False))
                jobs.append(job_to(K, s, t, True))
        jobs.append(job_to_bad_args(K))
        for u in us:
            jobs.append(job_unary(K, u, "abs"))
            jobs.append(job_unary(K, u, "neg"))
    for (Ka, Kb) in admissible_cmp_pairs():
        for ua in code_units(Ka):
            for ub in code_units(Kb):
                for op in CMP:
                    jobs.append(job_cmp(Ka, Kb, ua, ub, op))
        for op in CMP:           # the same comparison on operands with a history (one unit pair per kind pair)
            jobs.append(job_cmp(Ka, Kb, code_units(Ka)[0], code_units(Kb)[-1], op, history=True))
    allk = spec.KINDS + list(NUMS)
    for op in OPS:
        for Ka in allk:
            for Kb in allk:
                if Ka in NUMS and Kb in NUMS:
                    continue
                exp = spec.dimension(op, spec_kind(Ka), spec_kind(Kb))
                uas = [None] if Ka in NUMS else code_units(Ka)
                ubs = [None] if Kb in NUMS else code_units(Kb)
                if exp == "TypeError":
                    uas, ubs = uas[:1], ubs[:1]          # the kind pair decides, one unit pair suffices
                for ua in uas:
                    for ub in ubs:
                        jobs.append(job_op(op, Ka, Kb, ua, ub))
                if exp != "TypeError":
                    # the same operation on operands that were converted in place before (one unit pair per kind pair)
                    jobs.append(job_op(op, Ka, Kb, uas[0], ubs[-1], history=True))
    for (Ka, Kb) in admissible_cmp_pairs():
        for ua in code_units(Ka):
            for ub in code_units(Kb):
                jobs.append(job_inverse(Ka, Kb, ua, ub))
    return jobs
