"""contracts.control -- motor control: PWMControl.apply_rules (C14), the four rules and the sensors (C15),
StopCondition and the operators (C16, L1 part).

Real classes run; quantities are abstract (SymQ, symbolic units); the powertrain behind a rule is the abstract
powertrain of pycv.absmodel with an enumerated chain length (2..5) and symbolic element classes.
"""
from __future__ import annotations

import z3

from pycv import absmodel as AM
from pycv import absunits as AU
from pycv import harness as H
from pycv import logic as L
from pycv import sym
from pycv.absunits import SymQ, SymUnit
from pycv.explore import Job
from pycv.sym import SymBool, SymNum

from contracts import motor as CM

STUB_MODULES = [
    "gearpy.sensors.timer", "gearpy.sensors.tachometer", "gearpy.sensors.absolute_rotary_encoder",
    "gearpy.sensors.amperometer", "gearpy.motor_control.rules.constant_pwm", "gearpy.motor_control.rules.utils",
    "gearpy.motor_control.rules.reach_angular_position", "gearpy.motor_control.rules.start_limit_current",
    "gearpy.motor_control.rules.start_proportional_to_angular_position", "gearpy.motor_control.pwm_control",
    "gearpy.utils.stop_condition.stop_condition", "gearpy.utils.stop_condition.operator",
]
_PATCHED = [False]


def patch_worker():
    if _PATCHED[0]:
        return
    _PATCHED[0] = True
    from pycv import patch
    import importlib
    for m in STUB_MODULES:
        importlib.import_module(m)
    patch.PATCH_LOG.extend(H.stub_unit_classes(STUB_MODULES))
    import gearpy.motor_control.rules.start_limit_current as SLC
    import numpy
    SLC.__dict__["np"] = patch._MathProxy(numpy, {"sqrt": sym.sym_sqrt})
    # the arbitration method goes through the loop/comprehension rewriter (sets of symbolic proposals -> SymSet)
    from pycv import loops
    import gearpy.motor_control.pwm_control as PC
    loops.rewrite_method(PC.PWMControl, "apply_rules")
    patch.PATCH_LOG.append("gearpy.motor_control.pwm_control.PWMControl.apply_rules: for/comprehension headers wrapped (vcloop_/vccomp_/vcset_), body unchanged")


# =====================================================================================================
# C14: PWMControl.apply_rules
# =====================================================================================================

class MotorPWM:
    _pycv_instance_of = ("MotorBase", "DCMotor", "RotatingObject", "MechanicalObject")
    """stand-in for the motor behind PWMControl: `pwm` follows the DCMotor.pwm setter contract (contracts/motor.py)"""

    def __init__(self, pwm0):
        self._pwm = pwm0
        self.sets = 0

    @property
    def pwm(self):
        return self._pwm

    @pwm.setter
    def pwm(self, v):
        if not sym.sym_isinstance(v, (float, int)):
            raise TypeError("Parameter 'pwm' must be a float or an integer.")
        if (v > 1) or (v < -1):
            raise ValueError("Pulse Width Modulation (PWM) must be within -1 and 1.")
        self._pwm = v
        self.sets += 1


def _powertrain_base():
    import gearpy.powertrain as PT
    return PT.Powertrain


class PTStandIn(_powertrain_base()):
    """a Powertrain holding just a motor (real subclass: the constructors under contract test isinstance)"""
    _pycv_instance_of = ("Powertrain",)

    def __init__(self, motor=None, **kw):
        self.__dict__["_kw"] = dict(kw, elements=kw.get("elements", (motor,)))

    elements = property(lambda self: self._kw["elements"])
    time = property(lambda self: self._kw["time"])


class AbsRule:
    _pycv_instance_of = ("RuleBase",)
    """a rule: apply() returns None or a number and modifies nothing (contract proved per rule class below)"""

    def __init__(self, k, log, c):
        self.k, self.log, self.c = k, log, c
        self.applicable = None
        self.value = None

    def apply(self):
        c = sym.ctx() if not self.c.concrete else None
        self.log.append(self.k)
        if self.c.concrete:
            self.applicable = self.c.boolean(f"applicable{self.k}")
            self.value = self.c.real(f"v{self.k}")
            return self.value if self.applicable else None
        b = self.c.boolean(f"applicable{self.k}")
        self.applicable = bool(b)
        if not self.applicable:
            return None
        self.value = self.c.real(f"v{self.k}")
        return self.value


def _rule_isinstance(obj, cls):
    if isinstance(obj, AbsRule):
        return any(getattr(t, "__name__", "") in ("RuleBase", "object") for t in sym._unpack_types(cls))
    return None


sym.ISINSTANCE_HOOKS.insert(0, _rule_isinstance)


def job_apply_rules(m):
    def body(c, O):
        import gearpy.motor_control.pwm_control as PC
        pwm0 = c.real("pwm0")
        if not c.concrete:
            c.assume(z3.And(pwm0.term >= -1, pwm0.term <= 1))
        motor = MotorPWM(pwm0)
        ctl = construct(O, PC.PWMControl, ("C14",), powertrain=PTStandIn(motor))
        log = []
        rules = [AbsRule(k, log, c) for k in range(m)]
        for ru in rules:
            st, r = H.call(ctl.add_rule, ru)
            if st != "ok":
                O.fail("add_rule:accepts-a-rule", props=("C14",), note=repr(r))
                return
        st, r = H.call(ctl.apply_rules)
        appl = [ru for ru in rules if ru.applicable]
        O.prove("rules:every-rule-consulted-exactly-once-in-order", log == list(range(m)), props=("C14",))
        if len(appl) >= 2:
            O.cover("two-or-more-applicable")
            O.prove("conflict:two-or-more-applicable=>ValueError", st == "raise" and isinstance(r, ValueError), props=("C14",))
            O.prove("conflict:duty-cycle-unchanged", motor.pwm is pwm0 and motor.sets == 0, props=("C14",))
            return
        if st == "raise":
            O.fail("no-exception-with-at-most-one-applicable-rule", props=("C14",), note=repr(r))
            return
        if len(appl) == 1:
            O.cover("exactly-one-applicable")
            v = appl[0].value
            clip = L.minv(L.maxv(L.num(v), -1), 1)
            O.prove("one:duty-cycle=proposed-value-clipped-to-[-1,1]", L.eq(motor.pwm, clip), props=("C14",))
        else:
            O.cover("none-applicable")
            O.prove("none:duty-cycle=1", L.eq(motor.pwm, 1), props=("C14",))
        O.prove("range:duty-cycle-in-[-1,1]", L.And(L.le(-1, motor.pwm), L.le(motor.pwm, 1)), props=("C14",))
        O.prove("set-once", motor.sets == 1, props=("C14",))
    covers = ["none-applicable"] + (["exactly-one-applicable"] if m >= 1 else []) + (["two-or-more-applicable"] if m >= 2 else [])
    return Job(f"control.apply_rules[{m} rules]", body, ("C14",),
               functions=["gearpy.motor_control.pwm_control.PWMControl.apply_rules",
                          "gearpy.motor_control.pwm_control.PWMControl._saturate_pwm"],
               expect_covers=covers, meta=dict(family="apply_rules", m=m, thorough_only=(m > 4)))


def job_add_rule():
    def body(c, O):
        if c.concrete:
            return
        import gearpy.motor_control.pwm_control as PC
        ctl = construct(O, PC.PWMControl, ("C14",), powertrain=PTStandIn(MotorPWM(c.real("pwm0"))))
        O.prove("ctor[PWMControl]:starts-without-rules", list(ctl.rules) == [], props=("C14",))
        r1 = AbsRule(0, [], c)
        st, r = H.call(ctl.add_rule, r1)
        O.prove("add_rule:appends-the-rule", st == "ok" and len(ctl.rules) == 1 and ctl.rules[-1] is r1, props=("C14",))
        st, r = H.call(ctl.add_rule, object())
        O.prove("add_rule:rejects-a-non-rule-and-leaves-the-list", st == "raise" and isinstance(r, TypeError) and len(ctl.rules) == 1,
                props=("C14",))
    return Job("control.add_rule", body, ("C14",), functions=["gearpy.motor_control.pwm_control.PWMControl.add_rule"],
               meta=dict(family="apply_rules"))


# =====================================================================================================
# C15: sensors, Timer and the four rules
# =====================================================================================================

class Target:
    """element a sensor looks at"""

    def __init__(self, **kw):
        self.__dict__.update(kw)


def construct(O, cls, props, *a, **kw):
    """objects under contract are built by their REAL constructors (what `__init__` stores is what `apply` reads)"""
    st, r = H.call(cls, *a, **kw)
    if st != "ok":
        O.fail(f"ctor[{cls.__name__}]:accepts-valid-arguments", props=props, note=repr(r))
        raise sym.PathEnd()
    return r


def _register_stand_ins():
    """native replay (unpatched process): the real constructors use the real isinstance, so the stand-ins are registered
    as virtual subclasses of the library's abstract base classes (Powertrain is a plain class: real subclasses below)"""
    import gearpy.mechanical_objects as MO
    from gearpy.motor_control.rules.rules_base import RuleBase
    for base in (MO.RotatingObject, MO.MotorBase, MO.DCMotor):
        base.register(Target)
        base.register(MotorPWM)
    RuleBase.register(AbsRule)


def _target_isinstance(obj, cls):
    if isinstance(obj, Target):
        names = {getattr(t, "__name__", "") for t in sym._unpack_types(cls)}
        return bool(names & set(obj.__dict__.get("_classes", ("RotatingObject", "object"))))
    return None


sym.ISINSTANCE_HOOKS.insert(0, _target_isinstance)


def tol_band(kind, *units):
    """SI width within which the library's cross-unit comparisons (absolute 1e-12 in one operand's unit) may
    decide either way: the window clauses are stated outside it, the same-unit clauses are exact"""
    tot = 0
    for u in units:
        tot = L.add(tot, AU.fac(kind, u))
    return L.mul(2 * AU.TOL, tot)


def job_timer():
    def body(c, O):
        import gearpy.sensors.timer as TM
        start = H.mkq(c, "Time", "start")
        dur = H.mkq(c, "TimeInterval", "duration")
        now = H.mkq(c, "Time", "t")
        st, tm = H.call(TM.Timer, start_time=start, duration=dur)
        if st == "raise":
            O.fail("Timer:constructs", props=("C15",), note=repr(tm))
            return
        st, r = H.call(tm.is_active, current_time=now)
        if st == "raise":
            O.fail("Timer.is_active:no-exception", props=("C15",), note=repr(r))
            return
        O.cover("returns")
        act = L.truth(r)
        S, D, T = H.SI(start), H.SI(dur), H.SI(now)
        inside = L.And(L.le(S, T), L.le(T, L.add(S, D)))
        if c.concrete:
            O.prove("Timer:active-iff-start<=t<=start+duration", act == inside, props=("C15",))
            return
        # outside the library's tolerance band (the comparisons convert across units with the absolute tolerance)
        band = tol_band("Time", start.unit, now.unit, dur.unit)
        clear_in = L.And(L.le(L.add(S, band), T), L.le(L.add(T, band), L.add(S, D)))
        clear_out = L.Or(L.lt(L.add(T, band), S), L.gt(T, L.add(L.add(S, D), band)))
        O.prove("Timer:active-when-start<=t<=start+duration(beyond-tolerance)", L.Implies(clear_in, act), props=("C15",))
        O.prove("Timer:inactive-outside-the-window(beyond-tolerance)", L.Implies(clear_out, L.Not(act)), props=("C15",))
        same = L.And(AU.same_unit(start.unit, now.unit), AU.same_unit(now.unit, dur.unit))
        O.prove("Timer:same-units=>active-iff-start<=t<=start+duration(exact,inclusive)",
                L.Implies(same, L.Iff(act, inside)), props=("C15",))
    return Job("control.Timer.is_active", body, ("C15",), functions=["gearpy.sensors.timer.Timer.is_active"],
               expect_covers=("returns",), meta=dict(family="rule"))


def job_constant_pwm():
    def body(c, O):
        import gearpy.motor_control.rules.constant_pwm as CP
        import gearpy.sensors.timer as TM
        start = H.mkq(c, "Time", "start")
        dur = H.mkq(c, "TimeInterval", "duration")
        now = H.mkq(c, "Time", "t")
        val = c.real("pwm_value")
        tm = TM.Timer(start_time=start, duration=dur)
        c.assume(L.And(L.ge(val, -1), L.le(val, 1)))        # constructor precondition (a duty cycle)
        rule = construct(O, CP.ConstantPWM, ("C15",), timer=tm, powertrain=PTStandIn(time=[H.mkq(c, "Time", "t_old"), now], elements=()),
                         target_pwm_value=val)
        before = dict(rule.__dict__)
        st, r = H.call(rule.apply)
        if st == "raise":
            O.fail("ConstantPWM.apply:no-exception", props=("C15",), note=repr(r))
            return
        O.cover("returns")
        S, D, T = H.SI(start), H.SI(dur), H.SI(now)
        applicable = r is not None
        if not c.concrete:
            same = L.And(AU.same_unit(start.unit, now.unit), AU.same_unit(now.unit, dur.unit))
            band = tol_band("Time", start.unit, now.unit, dur.unit)
            inside = L.And(L.le(S, T), L.le(T, L.add(S, D)))
            clear_in = L.And(L.le(L.add(S, band), T), L.le(L.add(T, band), L.add(S, D)))
            clear_out = L.Or(L.lt(L.add(T, band), S), L.gt(T, L.add(L.add(S, D), band)))
            if applicable:
                O.cover("applicable")
                O.prove("ConstantPWM:proposes-only-inside-the-window", L.Not(clear_out), props=("C15",))
                O.prove("ConstantPWM:same-units=>proposes-only-when-start<=t<=start+duration", L.Implies(same, inside), props=("C15",))
                O.prove("ConstantPWM:proposes-its-constant", r is val or L.eq(r, val), props=("C15",))
            else:
                O.cover("not-applicable")
                O.prove("ConstantPWM:silent-only-outside-the-window", L.Not(clear_in), props=("C15",))
                O.prove("ConstantPWM:same-units=>silent-only-outside[start,start+duration]", L.Implies(same, L.Not(inside)), props=("C15",))
        else:
            inside = (S <= T <= S + D)
            O.prove("ConstantPWM:same-units=>proposes-only-when-start<=t<=start+duration" if applicable else
                    "ConstantPWM:same-units=>silent-only-outside[start,start+duration]", applicable == inside, props=("C15",))
        O.prove("ConstantPWM:modifies-nothing", all(rule.__dict__[k] is v for k, v in before.items()), props=("C15", "C14"))
    return Job("control.ConstantPWM.apply", body, ("C15", "C14"),
               functions=["gearpy.motor_control.rules.constant_pwm.ConstantPWM.apply"],
               expect_covers=("applicable", "not-applicable"), meta=dict(family="rule"))


def make_chain(c, n):
    """abstract powertrain with a concrete number of elements and symbolic classes/fields"""
    env = AM.Env(c)
    c.assume(env.n == n)
    env.n = z3.IntVal(n)
    from contracts import solver as CS
    env.iface = CS.Iface(env)
    m = {}
    for k, kind in (("w0", "AngularSpeed"), ("Tm", "Torque"), ("i0", "Current"), ("im", "Current")):
        m[k] = H.mkq(c, kind, f"motor_{k}")
    c.assume(z3.And(L._b(L.gt(m["w0"].si(), 0)), L._b(L.gt(m["Tm"].si(), 0)), L._b(L.ge(m["i0"].si(), 0)),
                    L._b(L.gt(m["im"].si(), 0)), L._b(L.lt(m["i0"].si(), m["im"].si()))))
    env.motor = m
    env.assume_wellformed()
    return env


def eta(env, n, classes=AM.HIER["SpurGear"]):
    """product of the mating efficiencies of the elements whose class is in `classes` (spec)"""
    st = env.state
    out = z3.RealVal(1)
    for j in range(n):
        cj = z3.Select(st["cls"], j)
        isin = z3.Or(*[cj == k for k in sorted(classes)])
        out = out * z3.If(isin, z3.Select(st["eff"], j), z3.RealVal(1))
    return out


def job_reach(n, second_call=False):
    def body(c, O):
        if c.concrete:
            return
        import gearpy.motor_control.rules.reach_angular_position as RP
        import gearpy.sensors.absolute_rotary_encoder as ENC
        env = make_chain(c, n)
        st = env.state
        pos = H.mkq(c, "AngularPosition", "theta")
        target = H.mkq(c, "AngularPosition", "theta_target")
        brake = H.mkq(c, "Angle", "theta_brake")
        c.assume(brake.si() > 0)
        tgt = Target(angular_position=pos)
        enc = construct(O, ENC.AbsoluteRotaryEncoder, ("C15",), target=tgt)
        rule = construct(O, RP.ReachAngularPosition, ("C15",), encoder=enc, powertrain=AM.AbsPowertrain(env),
                         target_angular_position=target, braking_angle=brake)
        # efficiencies in (0, 1] (property C02's quantifier)
        for j in range(1, n):
            c.assume(z3.Select(st["eff"], j) > 0)
        c.assume(z3.Implies(z3.Not(z3.Select(st["Tl_none"], 0)), env.fac("Torque", z3.Select(st["Tl_unit"], 0)) > 0))
        if second_call:
            # the rule is consulted at every instant: its answer must follow the state of THAT instant.  An earlier call in
            # another state (other encoder reading, other motor load) must not influence this one.
            stt0, r0 = H.call(rule.apply)
            if stt0 == "raise":
                raise sym.PathEnd()                      # first-call behaviour is the other job's subject
            pos = H.mkq(c, "AngularPosition", "theta_at_the_second_call")
            tgt.angular_position = pos
            st.havoc(("Tl",), tag="second_call")
            c.assume(z3.Implies(z3.Not(z3.Select(st["Tl_none"], 0)), env.fac("Torque", z3.Select(st["Tl_unit"], 0)) > 0))
        old = st.snapshot()
        stt, r = H.call(rule.apply)
        TH, TT, TB = pos.si(), target.si(), brake.si()
        Tl0 = env.si("Tl", 0)
        none = z3.Select(st["Tl_none"], 0)
        et = eta(env, n)
        terr = z3.If(none, z3.RealVal(0), Tl0 / env.motor["Tm"].si() / et * TB)
        ts = TT - TB + terr
        if stt == "raise":
            O.cover("raises")
            if isinstance(r, ValueError):
                O.prove("Reach:no-exception(ValueError)-for-a-physical-state", False, props=("C15",),
                        note=f"{r} -- static error = float * Angle rejects a negative factor (negative motor load)")
                O.prove("Reach:ValueError-only-for-negative-motor-load", z3.And(z3.Not(none), Tl0 < 0), props=("C15",))
            else:
                O.fail("Reach:no-unexpected-exception", props=("C15",), note=repr(r))
            return
        O.cover("returns")
        if r is not None:
            O.cover("applicable")
            band = tol_band("AngularPosition", pos.unit, target.unit, brake.unit, "rad")
            O.prove("Reach:proposes-only-once-theta>=theta_s(beyond-tolerance)", TH >= ts - band, props=("C15",))
            O.prove("Reach:value=1-(theta-theta_s)/theta_b", L.eq(L.mul(L.sub(1, r), TB), TH - ts), props=("C15",))
        else:
            O.cover("not-applicable")
            band = tol_band("AngularPosition", pos.unit, target.unit, brake.unit, "rad")
            O.prove("Reach:silent-only-while-theta<theta_s(beyond-tolerance)", TH <= ts + band, props=("C15",))
        O.prove("Reach:modifies-nothing", not st.changed_since(old), props=("C15", "C14"))
    return Job(f"control.ReachAngularPosition.apply[n={n}{',second-call-in-another-state' if second_call else ''}]", body, ("C15", "C14"),
               functions=["gearpy.motor_control.rules.reach_angular_position.ReachAngularPosition.apply",
                          "gearpy.motor_control.rules.utils._compute_static_error",
                          "gearpy.sensors.absolute_rotary_encoder.AbsoluteRotaryEncoder.get_value"],
               expect_covers=("applicable", "not-applicable"), meta=dict(family="rule", n=n, thorough_only=(n > 5)))


def job_start_limit_current():
    def body(c, O):
        if c.concrete:
            return
        import gearpy.motor_control.rules.start_limit_current as SL
        import gearpy.sensors.absolute_rotary_encoder as ENC
        import gearpy.sensors.tachometer as TA
        pos = H.mkq(c, "AngularPosition", "theta")
        spd = H.mkq(c, "AngularSpeed", "omega")
        target = H.mkq(c, "AngularPosition", "theta_target")
        ilim = H.mkq(c, "Current", "i_lim")
        w0 = H.mkq(c, "AngularSpeed", "w0")
        i0 = H.mkq(c, "Current", "i0")
        im = H.mkq(c, "Current", "imax")
        Tm = H.mkq(c, "Torque", "Tmax")
        c.assume(z3.And(w0.si() > 0, i0.si() >= 0, im.si() > 0, i0.si() < im.si(), ilim.si() > 0, Tm.si() > 0))
        enc = construct(O, ENC.AbsoluteRotaryEncoder, ("C15",), target=Target(angular_position=pos))
        tach = construct(O, TA.Tachometer, ("C15",), target=Target(angular_speed=spd))
        motor = Target(no_load_speed=w0, maximum_electric_current=im, no_load_electric_current=i0, electric_current_is_computable=True,
                       _classes=("DCMotor", "MotorBase", "RotatingObject"))
        rule = construct(O, SL.StartLimitCurrent, ("C15",), encoder=enc, tachometer=tach, motor=motor, target_angular_position=target,
                         limit_electric_current=ilim)
        stt, r = H.call(rule.apply)
        if stt == "raise":
            O.fail("StartLimitCurrent.apply:no-exception", props=("C15",), note=repr(r))
            return
        O.cover("returns")
        TH, TT = pos.si(), target.si()
        if r is None:
            O.cover("not-applicable")
            O.prove("SLC:silent-only-while-theta>target(beyond-tolerance)",
                    TH >= TT - tol_band("AngularPosition", pos.unit, target.unit), props=("C15",))
            return
        O.cover("applicable")
        O.prove("SLC:proposes-only-while-theta<=target(beyond-tolerance)",
                TH <= TT + tol_band("AngularPosition", pos.unit, target.unit), props=("C15",))
        D = sym.term_of(r)
        s = spd.si() / w0.si()
        e = ilim.si() / im.si()
        a = i0.si() / im.si()
        real_root = (s + e) * (s + e) - 4 * a * s >= 0        # discriminant; its sign is obligation sqrt-argument-nonnegative
        O.prove("SLC:value-is-a-root-of-the-current-law-quadratic", z3.Implies(real_root, D * D - (s + e) * D + a * s == 0), props=("C15",))
        O.prove("SLC:value-is-the-larger-root", z3.Implies(real_root, 2 * D >= s + e), props=("C15",))
        # cross-module lemma: at this duty cycle (outside the dead zone, not clipped) the motor's own current law
        # yields exactly the limit current at the present speed
        W, W0, TM, I0, IM = spd.si(), w0.si(), Tm.si(), i0.si(), im.si()
        T_ = CM.cases_term(CM.spec_torque(D, W, W0, TM, I0, IM))
        I_ = CM.cases_term(CM.spec_current(D, T_, TM, I0, IM))
        O.prove("SLC:motor-current-law-at-the-proposed-duty-cycle=limit-current",
                z3.Implies(z3.And(real_root, D > a, D <= 1), I_ == ilim.si()), props=("C15",))
    return Job("control.StartLimitCurrent.apply", body, ("C15", "C14"),
               functions=["gearpy.motor_control.rules.start_limit_current.StartLimitCurrent.apply",
                          "gearpy.sensors.tachometer.Tachometer.get_value"],
               expect_covers=("applicable", "not-applicable"), meta=dict(family="rule"))



def job_start_proportional(n, load_recorded, second_call=False):
    def body(c, O):
        if c.concrete:
            return
        import gearpy.motor_control.rules.start_proportional_to_angular_position as SP
        import gearpy.sensors.absolute_rotary_encoder as ENC
        env = make_chain(c, n)
        st = env.state
        c.assume(st["ecc"])                      # constructor requirement: the motor can compute its current
        pos = H.mkq(c, "AngularPosition", "theta")
        target = H.mkq(c, "AngularPosition", "theta_target")
        mult = c.real("multiplier")
        given = c.real("pwm_min_given")
        c.assume(z3.And(mult.term > 1, given.term > 0, target.si() != 0))
        tgt = Target(angular_position=pos)
        enc = construct(O, ENC.AbsoluteRotaryEncoder, ("C15",), target=tgt)
        rule = construct(O, SP.StartProportionalToAngularPosition, ("C15",), encoder=enc, powertrain=AM.AbsPowertrain(env),
                         target_angular_position=target, pwm_min_multiplier=mult, pwm_min=given)
        for j in range(1, n):
            c.assume(z3.Select(st["eff"], j) > 0)
        c.assume(z3.And(z3.Not(z3.Select(st["Tl_none"], 0)), env.fac("Torque", z3.Select(st["Tl_unit"], 0)) > 0))
        c.assume((z3.Select(st["hlen_Tl"], 0) > 0) == load_recorded)
        if second_call:
            # an earlier call in another state (other encoder reading, other current motor load) must not influence this one
            stt0, r0 = H.call(rule.apply)
            if stt0 == "raise":
                raise sym.PathEnd()
            pos = H.mkq(c, "AngularPosition", "theta_at_the_second_call")
            tgt.angular_position = pos
            hl = z3.Select(st["hlen_Tl"], 0)
            st.havoc(("Tl",), tag="second_call")
            c.assume(z3.And(z3.Not(z3.Select(st["Tl_none"], 0)), env.fac("Torque", z3.Select(st["Tl_unit"], 0)) > 0))
            c.assume(z3.Select(st["hlen_Tl"], 0) == hl)
        old = st.snapshot()
        stt, r = H.call(rule.apply)
        if stt == "raise":
            O.fail("StartProportional.apply:no-exception", props=("C15",), note=repr(r))
            return
        O.cover("returns")
        TH, TT = pos.si(), target.si()
        first = env.ghost.get("first_Tl", {}).get("0")
        Tl = first.si() if (load_recorded and first is not None) else env.si("Tl", 0)
        m = env.motor
        comp = 1 / eta(env, n) * (Tl / m["Tm"].si()) * ((m["im"].si() - m["i0"].si()) / m["im"].si()) + m["i0"].si() / m["im"].si()
        Dm = z3.If(mult.term * comp != 0, mult.term * comp, given.term)
        band = tol_band("AngularPosition", pos.unit, target.unit)
        if r is None:
            O.cover("not-applicable")
            O.prove("SP:silent-only-while-theta>target(beyond-tolerance)", TH >= TT - band, props=("C15",))
        else:
            O.cover("applicable")
            O.prove("SP:proposes-only-while-theta<=target(beyond-tolerance)", TH <= TT + band, props=("C15",))
            O.prove("SP:value=linear-ramp-from-minimum-duty-cycle-to-1",
                    L.eq(L.mul(sym.term_of(r) - Dm, TT), (1 - Dm) * TH), props=("C15",))
        O.prove("SP:modifies-nothing", not st.changed_since(old), props=("C15", "C14"))
    tag = "load-recorded" if load_recorded else "no-history"
    if second_call:
        tag += ",second-call-in-another-state"
    return Job(f"control.StartProportionalToAngularPosition.apply[n={n},{tag}]", body, ("C15", "C14"),
               functions=["gearpy.motor_control.rules.start_proportional_to_angular_position.StartProportionalToAngularPosition.apply",
                          "gearpy.motor_control.rules.utils._compute_pwm_min"],
               expect_covers=("applicable", "not-applicable"), meta=dict(family="rule", n=n, thorough_only=(n > 4)))


# =====================================================================================================
# C16 (L1): sensors, operators, StopCondition.check_condition
# =====================================================================================================

OPS = {"GreaterThan": "gt", "GreaterThanOrEqualTo": "ge", "EqualTo": "eq", "LessThan": "lt", "LessThanOrEqualTo": "le"}
SENSORS = {"AbsoluteRotaryEncoder": ("gearpy.sensors.absolute_rotary_encoder", "angular_position", "AngularPosition"),
           "Tachometer": ("gearpy.sensors.tachometer", "angular_speed", "AngularSpeed"),
           "Amperometer": ("gearpy.sensors.amperometer", "electric_current", "Current")}


def job_stop(sensor, opname, second_call=False):
    modname, attr, kind = SENSORS[sensor]

    def body(c, O):
        import importlib
        import gearpy.utils.stop_condition.stop_condition as SC
        import gearpy.utils.stop_condition.operator as OP
        SM = importlib.import_module(modname)
        reading = H.mkq(c, kind, "reading")
        thr = H.mkq(c, kind, "threshold")
        tgt = Target(**{attr: reading}, electric_current_is_computable=True, _classes=("RotatingObject", "MotorBase", "DCMotor"))
        sens = construct(O, getattr(SM, sensor), ("C16", "C15"), target=tgt)
        sc = construct(O, SC.StopCondition, ("C16",), sensor=sens, threshold=thr, operator=getattr(OP, opname)())
        st, r = H.call(sens.get_value)
        O.prove("sensor:get_value-is-the-live-attribute-object", st == "ok" and r is reading, props=("C16", "C15"))
        if second_call:
            # the condition is checked at every computed instant: an earlier check against another reading must not matter
            st0, r0 = H.call(sc.check_condition)
            if st0 == "raise":
                raise sym.PathEnd()
            reading = H.mkq(c, kind, "reading_at_the_second_check")
            setattr(tgt, attr, reading)
        st, r = H.call(sc.check_condition)
        if st == "raise":
            O.fail("check_condition:no-exception", props=("C16",), note=repr(r))
            return
        O.cover("returns")
        t = L.truth(r)
        R_, T_ = H.SI(reading), H.SI(thr)
        op = OPS[opname]
        if c.concrete:
            exact = {"gt": R_ > T_, "ge": R_ >= T_, "eq": R_ == T_, "lt": R_ < T_, "le": R_ <= T_}[op]
            O.prove("check_condition:same-units=>operator(reading,threshold)-on-SI-magnitudes", bool(t) == exact, props=("C16",))
            return
        exact = {"gt": R_ > T_, "ge": R_ >= T_, "eq": R_ == T_, "lt": R_ < T_, "le": R_ <= T_}[op]
        band = tol_band(kind, reading.unit, thr.unit)
        far = z3.Or(R_ - T_ > band, T_ - R_ > band)
        O.prove("check_condition:operator(reading,threshold)-on-SI-magnitudes(beyond-tolerance)",
                z3.Implies(far, L.Iff(t, exact)), props=("C16", "C07"))
        O.prove("check_condition:same-units=>operator(reading,threshold)-on-SI-magnitudes",
                z3.Implies(L._b(AU.same_unit(reading.unit, thr.unit)), L.Iff(t, exact)), props=("C16",))
        O.prove("check_condition:reads-the-live-attribute-and-modifies-nothing",
                tgt.__dict__[attr] is reading and sc.threshold is thr and sc.sensor is sens, props=("C16",))
    return Job(f"control.StopCondition.check_condition[{sensor},{opname}{',second-check-with-another-reading' if second_call else ''}]", body, ("C16", "C15", "C07"),
               functions=["gearpy.utils.stop_condition.stop_condition.StopCondition.check_condition",
                          f"gearpy.utils.stop_condition.operator.{opname}.__call__", f"{modname}.{sensor}.get_value"],
               expect_covers=("returns",), meta=dict(family="stop", sensor=sensor, op=opname))


_register_stand_ins()


def all_jobs(exact_tables=None):
    jobs = [job_apply_rules(m) for m in range(0, 7)]
    jobs += [job_add_rule(), job_timer(), job_constant_pwm(), job_start_limit_current()]
    jobs += [job_reach(n) for n in (2, 3, 4, 5, 6, 7, 8)]                      # n > 5: thorough tier only
    jobs += [job_reach(n, second_call=True) for n in (2, 3)]
    jobs += [job_start_proportional(2, lr, second_call=True) for lr in (False, True)]
    jobs += [job_start_proportional(n, lr) for n in (2, 3, 4, 5, 6) for lr in (False, True)]   # n > 4: thorough tier only
    jobs += [job_stop(sn, op) for sn in SENSORS for op in OPS]
    jobs += [job_stop(sn, op, second_call=True) for sn in SENSORS for op in OPS]
    return jobs
