"""C04 extras: the Lean 4 lemma (step 2) and the bounded native halving-ratio check (step 3)."""
from __future__ import annotations

import hashlib
import math
import os
import random
import subprocess
import time

ROOT = os.path.dirname(os.path.dirname(os.path.abspath(__file__)))
LEAN = os.path.join(ROOT, "lean", "C04.lean")
STAMP = os.path.join(ROOT, "lean", "C04.checked")


def _sha():
    with open(LEAN, "rb") as f:
        return hashlib.sha256(f.read()).hexdigest()


def lean_lemma(tier):
    """thorough: compile lean/C04.lean with Lean 4 + Mathlib (no `sorry`, exit 0).
    quick: the file must be byte-identical to the one the last successful thorough run checked (committed stamp);
    the lemma is pure mathematics and does not depend on /repo."""
    oid = "convergence.lean[first-order-error-bound: speed_error, position_error, scheme_closed_form]"
    src = open(LEAN).read()
    if "sorry" in src or "admit" in src or "axiom " in src:
        return dict(id=oid, status="refuted", counts_as_obligation=True, note="lean file contains sorry/admit/axiom",
                    replay_result=dict(confirmed=True))
    if tier != "thorough":
        ok = os.path.exists(STAMP) and open(STAMP).read().split()[0] == _sha()
        return dict(id=oid, status="discharged" if ok else "undecided", counts_as_obligation=True, backend="lean4+mathlib (stamp)",
                    note=("lean/C04.lean is byte-identical to the file checked by Lean 4.33 + Mathlib in the last thorough run "
                          f"({open(STAMP).read().strip() if os.path.exists(STAMP) else 'no stamp'}); not re-run in the quick tier")
                    if ok else "lean/C04.lean changed since it was last checked: run the thorough tier")
    t0 = time.time()
    try:
        r = subprocess.run(["lean", LEAN], capture_output=True, text=True, timeout=1500, cwd=os.path.dirname(LEAN))
        out = (r.stdout + r.stderr).strip()
        ok = r.returncode == 0 and "error" not in out.lower() and "sorry" not in out.lower()
    except (subprocess.TimeoutExpired, FileNotFoundError) as e:
        return dict(id=oid, status="undecided", counts_as_obligation=True, note=f"lean did not finish: {e}")
    if ok:
        try:
            with open(STAMP, "w") as f:
                f.write(f"{_sha()} checked by lean (Lean 4.33.0 + Mathlib) in {time.time() - t0:.0f}s\n")
        except OSError:
            pass
    return dict(id=oid, status="discharged" if ok else "undecided", counts_as_obligation=True, backend="lean4+mathlib",
                time_s=round(time.time() - t0, 1), note=out[:500] if not ok else "no errors, no sorry")


def halving_ratio(seed, cases=6):
    """BOUNDED stand-in (not counted as proved): on a corpus of real powertrains the error against the closed form at a
    fixed time is <= C*dt and roughly halves when dt is halved (ratio in [1.6, 2.5])."""
    from gearpy.mechanical_objects import DCMotor, SpurGear, Flywheel
    from gearpy.powertrain import Powertrain
    from gearpy.solver import Solver
    from gearpy.units import AngularPosition, AngularSpeed, InertiaMoment, Length, TimeInterval, Torque, Current
    from gearpy.utils import add_fixed_joint, add_gear_mating
    rng = random.Random(seed)
    worst = None
    n_cases, cases = cases, 0
    bad = []
    for _ in range(n_cases):
        n1, n2 = rng.randint(10, 30), rng.randint(20, 80)
        eff = rng.uniform(0.7, 1.0)
        Tl = rng.choice((rng.uniform(0.0, 4.0), rng.uniform(0.0, 60.0)))      # below and above the stall torque
        w_init = rng.uniform(-30, 50)                                          # either sign (the motor may be back-driven)
        D = rng.choice([1, 0.8, 0.6])

        def build():
            m = DCMotor("m", InertiaMoment(5, "gcm^2"), AngularSpeed(2000, "rpm"), Torque(10, "mNm"),
                        Current(0.1, "A"), Current(2, "A"))
            f = Flywheel("f", InertiaMoment(20, "gcm^2"))
            g1 = SpurGear("g1", n1, InertiaMoment(10, "gcm^2"))
            g2 = SpurGear("g2", n2, InertiaMoment(80, "gcm^2"))
            add_fixed_joint(m, f)
            add_fixed_joint(f, g1)
            add_gear_mating(g1, g2, eff)
            g2.external_torque = lambda time, angular_position, angular_speed: Torque(Tl, "mNm")
            m.pwm = D
            g2.angular_position = AngularPosition(0, "rad")
            g2.angular_speed = AngularSpeed(w_init, "rad/s")
            return Powertrain(m), m, g2
        # closed form constants from the documented model
        ratio = n2 / n1
        G = eff * ratio
        R = ratio
        J = ((5e-7 * 1.0 + 20e-7) * 1.0 + 10e-7) * ratio + 80e-7
        w0 = 2000 * 2 * math.pi / 60
        TD = 10e-3 * (D * 2 - 0.1) / (2 - 0.1)
        a = (G * TD - Tl * 1e-3) / J
        kappa = G * TD * R / (D * w0 * J)
        tau = 1 / kappa
        Tend = 2 * tau
        errs = []
        for steps in (40, 80, 160):
            dt = Tend / steps
            pt, m, g2 = build()
            Solver(pt).run(TimeInterval(dt, "sec"), TimeInterval(Tend, "sec"))
            w_num = g2.time_variables["angular speed"][-1].to("rad/s").value
            t_end = pt.time[-1].to("sec").value
            ws = a / kappa
            w_ex = ws + (w_init - ws) * math.exp(-kappa * t_end)
            errs.append((dt, abs(w_num - w_ex), kappa * dt))
        cases += 1
        r1 = errs[0][1] / errs[1][1] if errs[1][1] > 0 else float("inf")
        r2 = errs[1][1] / errs[2][1] if errs[2][1] > 0 else float("inf")
        bound_ok = all(e <= abs(w_init - ws) * (kappa * Tend) * kd * 1.01 + 1e-9 for (_, e, kd) in errs)
        rec = dict(n1=n1, n2=n2, eff=round(eff, 4), load_mNm=round(Tl, 4), w_init=round(w_init, 3), D=D,
                   errors=[(round(d, 6), e) for d, e, _ in errs], ratios=[round(r1, 3), round(r2, 3)], bound_ok=bound_ok)
        worst = rec if worst is None or abs(r2 - 2) > abs(worst["ratios"][1] - 2) else worst
        if not (1.6 <= r1 <= 2.5 and 1.6 <= r2 <= 2.5 and bound_ok):
            bad.append(rec)
    if cases == 0:
        return dict(id="convergence.bounded[error-halves-when-dt-is-halved]", status="undecided", counts_as_obligation=False, bounded=True,
                    note="vacuous: no case was run")
    return dict(id="convergence.bounded[error-halves-when-dt-is-halved]", status="refuted" if bad else "passed",
                counts_as_obligation=False, bounded=True, bound=f"{cases} random two-stage powertrains x dt in Tend/40, /80, /160, Tend = 2 time constants",
                note=str(bad[:2]) if bad else f"worst case {worst}", replay_result=dict(confirmed=bool(bad), cases=bad[:2]))
