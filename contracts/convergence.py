"""contracts.convergence -- C04: the simulated trajectory is the explicit scheme of a LINEAR equation of motion and
converges (first order in dt) to the closed-form exponential solution.

Decomposition (DESIGN.md section 7, C04):
 (1) [z3, this file] from the per-instant relations proved for every recorded instant (C01 coupling, C02 torques,
     C03 motion and step, C08 motor law) and a constant duty cycle outside the dead zone and a constant load on the
     last element, the recorded speed/position of the output element satisfy the affine recurrence
         w' = w + dt*(a - kappa*w),   theta' = theta + dt*w'
     with  a = (G*Tmax(D) - T_load)/Jred,  kappa = G*Tmax(D)*R/(D*w0*Jred),
     G = prod eff[j]*ratio[j], R = prod ratio[j]  (products over the chain: inductive lemmas below).
 (2) [Lean 4 + Mathlib, lean/C04.lean, thorough tier] every such recurrence with x = kappa*dt in [0, 1/5] stays within
     a bound proportional to dt of the exponential closed form at every instant.
 (3) [bounded, native, thorough tier] the error at a fixed time roughly halves when dt is halved.
"""
from __future__ import annotations

import z3

from pycv import absmodel as AM
from pycv import logic as L
from pycv.explore import Job

from contracts import motor as CM
from contracts import solver as CS

Sel = z3.Select


def job_products():
    """inductive lemmas: Td[k] = Td[0]*G(k)  and  spd[0] = R(k)*spd[k]   (G, R: running products along the chain)"""
    def body(c, O):
        if c.concrete:
            return
        env = AM.Env(c)
        env.assume_wellformed()
        st = env.state
        G = z3.Function("g_G", AM.I, AM.R)
        Rf = z3.Function("g_R", AM.I, AM.R)
        k = z3.Int("k")
        c.assume(z3.And(k >= 1, k < env.n))
        c.assume(z3.And(G(0) == 1, Rf(0) == 1))
        c.assume(z3.And(G(k) == G(k - 1) * Sel(st["eff"], k) * Sel(st["ratio"], k), Rf(k) == Rf(k - 1) * Sel(st["ratio"], k)))
        O.prove("lemma:base:Td[0]=Td[0]*G(0),spd[0]=R(0)*spd[0]",
                z3.And(env.si("Td", 0) == env.si("Td", 0) * G(0), env.si("spd", 0) == Rf(0) * env.si("spd", 0)), props=("C04",))
        # inductive step, from the per-instant relations (C02 drive propagation, C01 coupling)
        c.assume(env.si("Td", k) == env.si("Td", k - 1) * Sel(st["eff"], k) * Sel(st["ratio"], k))
        c.assume(env.si("spd", k - 1) == Sel(st["ratio"], k) * env.si("spd", k))
        c.assume(z3.And(env.si("Td", k - 1) == env.si("Td", 0) * G(k - 1), env.si("spd", 0) == Rf(k - 1) * env.si("spd", k - 1)))
        O.prove("lemma:step:Td[k]=Td[0]*G(k)", env.si("Td", k) == env.si("Td", 0) * G(k), props=("C04",))
        O.prove("lemma:step:spd[0]=R(k)*spd[k]", env.si("spd", 0) == Rf(k) * env.si("spd", k), props=("C04",))
        c.assume(z3.And(G(k - 1) > 0, Rf(k - 1) > 0, Sel(st["eff"], k) > 0))
        O.prove("lemma:step:G(k)>0,R(k)>0", z3.And(G(k) > 0, Rf(k) > 0), props=("C04",))
    return Job("convergence.lemma[chain-products]", body, ("C04",), functions=["spec: chain products G, R"],
               meta=dict(family="convergence"))


def job_affine(with_current, positive):
    """one recorded instant and the next one: affine recurrence of the output element"""
    def body(c, O):
        if c.concrete:
            return
        w0, Tm, i0, im, D, TL, Jr, G, Rr, dt = (z3.Real(x) for x in ("w0", "Tmax", "i0", "imax", "D", "T_load", "Jred", "G", "R", "dt"))
        w, th, acc, Td0, wm = (z3.Real(x) for x in ("w", "theta", "acc", "Td0", "w_motor"))
        c.inputs.update({str(x): x for x in (w0, Tm, i0, im, D, TL, Jr, G, Rr, dt, w, th)})
        c.assume(z3.And(w0 > 0, Tm > 0, i0 >= 0, im > 0, i0 < im, Jr > 0, G > 0, Rr > 0, dt > 0, D >= -1, D <= 1))
        if with_current:
            dz = i0 / im
            c.assume(D > dz if positive else D < -dz)
            law = CM.cases_term(CM.spec_torque(D, wm, w0, Tm, i0, im))
            TD = CM.spec_tmax_of_D(D, Tm, i0, im, positive)
        else:
            c.assume(D == 1)        # without current data the characteristic does not depend on D; D plays no role
            law = CM.cases_term(CM.spec_torque(D, wm, w0, Tm))
            TD = Tm
        # per-instant relations at a recorded instant (Pinst / RunInv, proved in contracts/solver.py) + product lemmas
        c.assume(wm == Rr * w)                       # C01 coupling composed along the chain
        c.assume(Td0 == law)                         # C02/C08 motor characteristic at the recorded speed and duty cycle
        Tlast = Td0 * G - TL                         # C02: driving torque propagated, load function constant, net torque
        c.assume(acc * Jr == Tlast)                  # C03: not held
        a = (G * TD - TL) / Jr
        kappa = G * TD * Rr / (D * w0 * Jr)
        O.prove("affine:acceleration=a-kappa*speed", acc == a - kappa * w, props=("C04",))
        # C03 step (contract of _time_integration, speed not clamped): next recorded speed and position
        w2 = w + acc * dt
        th2 = th + w2 * dt
        O.prove("affine:step:w'=w+dt*(a-kappa*w);theta'=theta+dt*w'",
                z3.And(w2 == w + dt * (a - kappa * w), th2 == th + dt * w2), props=("C04",))
        if positive:
            O.prove("affine:rate-constant-positive", kappa > 0, props=("C04",))
        else:
            O.prove("affine:rate-constant-positive(mirrored branch)", kappa > 0, props=("C04",))
    tag = ("with-current-data," + ("D>dead-zone" if positive else "D<-dead-zone")) if with_current else "without-current-data"
    return Job(f"convergence.affine-step[{tag}]", body, ("C04",), functions=["lemma over the C01/C02/C03/C08 contracts"],
               meta=dict(family="convergence"))


def extra_checks(prop, tier, seed):
    if prop != "C04":
        return []
    out = []
    from contracts import convergence_extra as X
    out.append(X.lean_lemma(tier))
    out.append(X.halving_ratio(seed, cases=6 if tier == "thorough" else 2))
    return out


def all_jobs(exact_tables=None):
    return [job_products(), job_affine(True, True), job_affine(True, False), job_affine(False, True)]
