/-
C04, step (2): the explicit scheme of a linear ODE converges with first order.

With h = κ·dt ∈ [0, 1/5], b = 1 - h (one step of the scheme), a = exp(-h) (one step of the exact solution):
  speed:    ω_k - ω(t_k) = x₀ (bᵏ - aᵏ)                      ⇒ |ω_k - ω(t_k)| ≤ |x₀| · k h²  = |x₀| (κ t_k) (κ dt)
  position: θ_k - θ(t_k) = (x₀/κ) (aᵏ - bᵏ - h (1 - bᵏ))      ⇒ |θ_k - θ(t_k)| ≤ (|x₀|/κ)(κ t_k + 1)(κ dt)
i.e. a bound proportional to dt at every instant t_k = k·dt.
-/
import Mathlib

open Real

theorem pow_sub_pow_le (a b : ℝ) (hb : 0 ≤ b) (hab : b ≤ a) (ha : a ≤ 1) (k : ℕ) :
    a ^ k - b ^ k ≤ k * (a - b) := by
  induction k with
  | zero => simp
  | succ n ih =>
    have ha0 : 0 ≤ a := le_trans hb hab
    have hb1 : b ≤ 1 := le_trans hab ha
    have hbn0 : 0 ≤ b ^ n := pow_nonneg hb n
    have hbn : b ^ n ≤ 1 := pow_le_one₀ hb hb1
    have hmono : b ^ n ≤ a ^ n := pow_le_pow_left₀ hb hab n
    have hd : 0 ≤ a ^ n - b ^ n := sub_nonneg.mpr hmono
    have hab' : 0 ≤ a - b := sub_nonneg.mpr hab
    have e : a ^ (n + 1) - b ^ (n + 1) = a * (a ^ n - b ^ n) + (a - b) * b ^ n := by ring
    have h1 : a * (a ^ n - b ^ n) ≤ a ^ n - b ^ n := by nlinarith
    have h2 : (a - b) * b ^ n ≤ a - b := by nlinarith
    rw [e]
    push_cast
    linarith

/-- one exact step dominates one scheme step, by at most h² -/
theorem step_gap (h : ℝ) (h0 : 0 ≤ h) (h1 : h ≤ 1 / 5) :
    0 ≤ 1 - h ∧ 1 - h ≤ exp (-h) ∧ exp (-h) ≤ 1 ∧ exp (-h) - (1 - h) ≤ h ^ 2 := by
  refine ⟨by linarith, ?_, ?_, ?_⟩
  · have := add_one_le_exp (-h); linarith
  · exact exp_le_one_iff.mpr (by linarith)
  · have habs : |(-h)| ≤ 1 := by rw [abs_neg, abs_of_nonneg h0]; linarith
    have := abs_exp_sub_one_sub_id_le habs
    have h2 : exp (-h) - 1 - (-h) ≤ (-h) ^ 2 := le_trans (le_abs_self _) this
    nlinarith

/-- speed: |ω_k - ω(t_k)| / |x₀| = |bᵏ - aᵏ| ≤ k h² -/
theorem speed_error (h : ℝ) (h0 : 0 ≤ h) (h1 : h ≤ 1 / 5) (k : ℕ) :
    |(1 - h) ^ k - exp (-(k * h))| ≤ k * h ^ 2 := by
  obtain ⟨hb, hab, ha, hgap⟩ := step_gap h h0 h1
  have hexp : exp (-(k * h)) = exp (-h) ^ k := by
    rw [← exp_nat_mul]; congr 1; ring
  rw [hexp]
  have hle : (1 - h) ^ k ≤ exp (-h) ^ k := pow_le_pow_left₀ hb hab k
  rw [abs_sub_comm, abs_of_nonneg (sub_nonneg.mpr hle)]
  have := pow_sub_pow_le (exp (-h)) (1 - h) hb hab ha k
  have hk : (0 : ℝ) ≤ k := Nat.cast_nonneg k
  nlinarith

/-- position: |θ_k - θ(t_k)| κ / |x₀| = |aᵏ - bᵏ - h (1 - bᵏ)| ≤ k h² + h -/
theorem position_error (h : ℝ) (h0 : 0 ≤ h) (h1 : h ≤ 1 / 5) (k : ℕ) :
    |exp (-(k * h)) - (1 - h) ^ k - h * (1 - (1 - h) ^ k)| ≤ k * h ^ 2 + h := by
  obtain ⟨hb, hab, ha, hgap⟩ := step_gap h h0 h1
  have hexp : exp (-(k * h)) = exp (-h) ^ k := by
    rw [← exp_nat_mul]; congr 1; ring
  have hle : (1 - h) ^ k ≤ exp (-h) ^ k := pow_le_pow_left₀ hb hab k
  have hd := pow_sub_pow_le (exp (-h)) (1 - h) hb hab ha k
  have hb1 : 1 - h ≤ 1 := by linarith
  have hbk0 : 0 ≤ (1 - h) ^ k := pow_nonneg hb k
  have hbk1 : (1 - h) ^ k ≤ 1 := pow_le_one₀ hb hb1
  have hk : (0 : ℝ) ≤ k := Nat.cast_nonneg k
  rw [hexp, abs_le]
  constructor <;> nlinarith

/-- the scheme's closed forms: with b = 1 - h, w k = x₀ bᵏ solves w (k+1) = w k + dt (-(κ) w k), and
    s k = (x₀/κ)(1 - h)(1 - bᵏ) solves s (k+1) = s k + dt · w (k+1), s 0 = 0   (h = κ dt, κ > 0) -/
theorem scheme_closed_form (x0 κ dt : ℝ) (hκ : 0 < κ) (k : ℕ) :
    let h := κ * dt
    let w : ℕ → ℝ := fun j => x0 * (1 - h) ^ j
    let s : ℕ → ℝ := fun j => x0 / κ * (1 - h) * (1 - (1 - h) ^ j)
    w (k + 1) = w k + dt * (-(κ) * w k) ∧ s (k + 1) = s k + dt * w (k + 1) ∧ s 0 = 0 := by
  intro h w s
  refine ⟨?_, ?_, ?_⟩
  · simp only [w, h]; ring
  · simp only [w, s, h]; field_simp; ring
  · simp [s]
