#!/bin/bash
# usage: tools/try_seeded.sh <patch.diff> <Cxx> [<Cyy> ...]  -- applies the patch to /repo, runs the checks, reverts
P=$1; shift
cd /repo && git status --short | grep -q . && { echo "repo not clean"; exit 9; }
git apply "$P" || { echo "patch does not apply"; exit 9; }
cd /verif
for p in "$@"; do
  out=$(./check $p 2>&1); rc=$?
  echo "== $p rc=$rc $(echo "$out" | grep "^\[$p\] obligations" | tail -1 | cut -c1-160)"
  echo "$out" | grep "^VIOLATION\|^UNDECIDED\|^ENGINE\|^VACUITY\|^HELPER\|refuted-group" | cut -c1-260 | head -8
done
cd /repo && git checkout -- . && git status --short
