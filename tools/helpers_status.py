#!/usr/bin/env python3
"""Debug: status of the unit-layer helper contracts (abstract semantics vs real code)."""
import collections, os, sys
ROOT = os.path.dirname(os.path.dirname(os.path.abspath(__file__)))
sys.path.insert(0, ROOT)
from pycv import run as R
if __name__ == "__main__":
    mods = ["contracts.units"]
    jobs = R._load_jobs(None, mods)
    ids = sorted(j.id for j in jobs.values() if j.meta.get("family") in ("op", "to", "cmp", "unary"))
    res, _ = R.run_jobs(ids, mods, progress=False)
    g = collections.Counter(); ex = {}; n = 0
    for r in res:
        if r["engine_error"]:
            print("ENGINE", r["job"], r["engine_error"][:300]); continue
        for cl in r["clauses"]:
            if cl["clause"].startswith("helper:"):
                n += 1
                if cl["status"] != "discharged":
                    m = r["meta"]
                    k = (m.get("family"), m.get("Ka") or m.get("kind"), m.get("op"), m.get("Kb"), cl["clause"], cl["status"])
                    g[k] += 1; ex[k] = (r["job"], cl["model"])
    print("helper clauses:", n)
    for k, v in sorted(g.items(), key=str):
        print(v, k, ex[k])
