#!/bin/bash
# False-alarm test: every behaviour-preserving refactoring kept under harmless/ is applied to a scratch worktree of
# /repo's HEAD (never to /repo itself) and the checks of the properties anchored in the touched code must exit 0.
# usage: tools/harmless.sh [patch names...]   (default: all)     exit 0 = no check raised an alarm
cd "$(dirname "$0")/.."
declare -A PROPS=(
 [h1_1]="C01 C03 C13" [h1_2]="C16 C13 C09 C17" [h1_3]="C20" [h1_4]="C12 C17" [h1_5]="C14" [h1_6]="C15" [h1_7]="C15 C16" [h1_8]="C18"
 [h2_1]="C05 C06" [h2_2]="C05 C19" [h2_3]="C06" [h2_4]="C08 C02" [h2_5]="C09" [h2_6]="C09" [h2_7]="C09" [h2_8]="C10"
 [h3_1]="C02" [h3_2]="C02" [h3_3]="C01" [h3_4]="C03" [h3_5]="C09 C17" [h3_6]="C01 C03" [h3_7]="C03" [h3_8]="C13" [h3_9]="C17" [h3_10]="C11 C16"
 [mine_idioms]="C01 C02 C03" [mine_rename_private]="C10 C20 C09 C18 C12 C17 C02"
 [h5_1]="C05" [h5_2]="C06" [h5_3]="C05 C19" [h5_4]="C06" [h5_5]="C09" [h5_6]="C09 C19" [h5_7]="C19 C09" [h5_8]="C09" [h5_9]="C10" [h5_10]="C10"
 [h6_1]="C20" [h6_2]="C20" [h6_3]="C18" [h6_4]="C18" [h6_5]="C15" [h6_6]="C15" [h6_7]="C16" [h6_8]="C15 C16" [h6_9]="C17" [h6_10]="C17 C14"
 [h4_1]="C14" [h4_2]="C14" [h4_3]="C15" [h4_4]="C15" [h4_5]="C15" [h4_6]="C15" [h4_7]="C20" [h4_8]="C20" [h4_9]="C08" [h4_10]="C09 C17"
)
names=${@:-$(ls harmless/*.diff | xargs -n1 basename | sed 's/\.diff$//')}
fail=0
for n in $names; do
  wt=$(mktemp -d /tmp/harmless_XXXX); rmdir "$wt"
  git -C /repo worktree add -q "$wt" HEAD || { echo "$n: cannot create worktree"; fail=1; continue; }
  if ! git -C "$wt" apply "$PWD/harmless/$n.diff" 2>/dev/null; then
    echo "$n: patch does not apply to /repo HEAD (skipped)"; git -C /repo worktree remove --force "$wt"; continue
  fi
  for p in ${PROPS[$n]:-C01}; do
    out=$(PYCV_REPO="$wt" PYCV_EVIDENCE_DIR=/tmp/harmless_evidence ./check $p 2>&1); rc=$?
    echo "$n $p: rc=$rc $( [ $rc -eq 0 ] && echo quiet || echo ALARM )"
    [ $rc -eq 0 ] || { fail=1; echo "$out" | grep -E "^VIOLATION|^UNDECIDED|^ENGINE|^VACUITY|^HELPER" | head -5; }
  done
  git -C /repo worktree remove --force "$wt"
done
exit $fail
