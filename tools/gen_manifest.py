#!/usr/bin/env python3
"""Regenerates /verif/MANIFEST.json from contracts.PROPERTIES (run after adding a property)."""
import json, os, sys
ROOT = os.path.dirname(os.path.dirname(os.path.abspath(__file__)))
sys.path.insert(0, ROOT)
ALL = [f"C{i:02d}" for i in range(1, 21)]
import importlib.util
spec = importlib.util.spec_from_file_location("contracts_cfg", os.path.join(ROOT, "contracts", "__init__.py"))
cfgm = importlib.util.module_from_spec(spec); spec.loader.exec_module(cfgm)
P = cfgm.PROPERTIES
NA = getattr(cfgm, "NOT_APPLICABLE", {})
checks = []
for pid in ALL:
    if pid not in P:
        continue
    c = P[pid]
    checks.append(dict(
        property_id=pid,
        quick_cmd=f"./check {pid} --tier quick",
        thorough_cmd=f"./check {pid} --tier thorough",
        evidence_file=f"/verif/evidence/{pid}.json",
        replay_cmd_template="./check --replay {path}",
        engine="pycv",
        level_claimed=dict(category=c.get("level", "proof"), text=c["level_text"], design_ref=c.get("design_ref", "DESIGN.md section 7")),
        level_note=c["level_note"],
        technique=c.get("technique", "contract-based deductive verification: real code executed over symbolic proxies, per-path VCs vs sidecar contracts, z3/cvc5"),
    ))
man = dict(
    version=1,
    setup_cmd="./setup.sh",
    hooks=dict(
        guard="GEARPY_VERIF",
        enable="no hooks needed: contracts are sidecar files under /verif/contracts keyed by qualified function name; the real modules are imported from /repo's working tree and patched in memory inside the verification processes only",
        baseline_off_cmd="cd /repo && /venv/bin/python -m pytest -ra -q -p no:cacheprovider --timeout=900 --continue-on-collection-errors",
        source_commits=[],
        add_only=True,
    ),
    engines=[dict(name="pycv", path="/verif/pycv", serves_properties=[c["property_id"] for c in checks],
                  kind_free_text="deductive verifier for Python specialised to gearpy: CPython executes the real function objects over symbolic proxies; exhaustive path enumeration by decision replay; per-path verification conditions against sidecar contracts (pre/post/exceptional post/frame/loop invariants) discharged by z3 (cvc5 on unknown); counter-models replayed natively")],
    checks=checks,
    notes="See DESIGN.md. Exit codes of ./check: 0 held, 1 VIOLATION, 2 undecided, 3 engine/harness problem. known_findings.json lists recorded genuine defects and fix: commits.",
    not_applicable=[dict(property_id=pid, reason=NA.get(pid, "not claimed yet: contracts for this property are still being built (see DESIGN.md section 7 for the plan)"))
                    for pid in ALL if pid not in P],
)
with open(os.path.join(ROOT, "MANIFEST.json"), "w") as f:
    json.dump(man, f, indent=1)
try:
    import jsonschema
    jsonschema.validate(man, json.load(open("/root/.vp/MANIFEST.schema.json")))
    print("MANIFEST valid;", len(checks), "checks;", len(man["not_applicable"]), "not claimed")
except ImportError:
    print("written (jsonschema not available to validate)")
