#!/bin/bash
# runs every claimed check (tier = $1, default quick) and prints one summary line per property
cd "$(dirname "$0")/.."
TIER=${1:-quick}
for p in $(python3 -c "import json;print(' '.join(c['property_id'] for c in json.load(open('MANIFEST.json'))['checks']))"); do
  out=$(./check $p --tier $TIER 2>&1); rc=$?
  echo "$p rc=$rc $(echo "$out" | grep "^\[$p\] obligations" | tail -1)"
  echo "$out" | grep "^VIOLATION\|^UNDECIDED\|^ENGINE\|^VACUITY\|^HELPER" | head -5
done
