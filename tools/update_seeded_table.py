#!/usr/bin/env python3
"""Regenerates the seeded-changes table of DESIGN.md section 9 from seeded/*/meta.json."""
import glob, json, os
ROOT = os.path.dirname(os.path.dirname(os.path.abspath(__file__)))
s = open(os.path.join(ROOT, "DESIGN.md")).read()
rows = ["| id | change (one line) | needs, to manifest | caught by |", "|---|---|---|---|"]
for mf in sorted(glob.glob(os.path.join(ROOT, "seeded", "*", "meta.json"))):
    m = json.load(open(mf))
    rows.append(f"| {os.path.basename(os.path.dirname(mf))} | {m['summary']} | {m['needs_to_manifest']} | {'; '.join(m['caught_by'])} |")
a = s.index("<!-- seeded-table-begin -->"); b = s.index("<!-- seeded-table-end -->")
s = s[:a] + "<!-- seeded-table-begin -->\n" + "\n".join(rows) + "\n" + s[b:]
open(os.path.join(ROOT, "DESIGN.md"), "w").write(s)
print(len(rows) - 2, "seeded changes listed")
