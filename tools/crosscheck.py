#!/usr/bin/env python3
"""Engine cross-check (bounded, tier C): every job that has a concrete mode is run NATIVELY on random inputs (the job's own
`assume`s are its preconditions); a clause that the symbolic run discharged must not fail natively.  A failure that is not
a recorded known finding means the engine, a proxy or a contract is wrong (or binary64 rounding exceeded the 1e-9
relative tolerance of the concrete equality) -- to be read, never ignored.
usage: tools/crosscheck.py <modules,comma-separated> [trials per job] [filter]"""
import os, sys, random, collections, zlib
ROOT = os.path.dirname(os.path.dirname(os.path.abspath(__file__)))
sys.path.insert(0, ROOT)
from pycv import run as R, explore
from pycv.sym import PathEnd

def crosscheck(mods, trials=20, filt="", props=None):
    jobs = R._load_jobs(None, mods)           # UNPATCHED process: the real gearpy runs
    if props:
        jobs = {k: j for k, j in jobs.items() if any(p in j.props for p in props)}
    findings = R.load_known_findings()
    findings = findings["findings"] if isinstance(findings, dict) else findings
    fails = collections.Counter(); boundary = collections.Counter(); examples = {}; ran = 0; live = 0
    for jid in sorted(jobs):
        if filt not in jid:
            continue
        job = jobs[jid]
        rng = random.Random(zlib.crc32(jid.encode()))
        seen = 0
        for t in range(trials):
            c = explore.SamplingCtx({}, rng, 0.0)
            O = explore.ConcreteCollector(c)
            try:
                job.body(c, O)
            except PathEnd:
                pass                         # precondition not met (or a clause failed and ended the path: counted below)
            except Exception as e:          # noqa: BLE001
                fails[(jid, f"EXCEPTION {type(e).__name__}")] += 1
                examples.setdefault((jid, f"EXCEPTION {type(e).__name__}"), (str(e)[:200], dict(c.used)))
                continue
            seen += len(O.passed) + len(O.failed)
            ran += 1
            for cl, note in O.failed:
                hit = None
                for p in job.props:
                    hit = hit or R.match_finding(findings, p, f"{jid}:{cl}", job.meta)
                if hit:
                    continue
                # a failure that disappears when every real input is moved by a relative 1e-6 sits on a decision boundary
                # (two magnitudes equal up to rounding): binary64 rounding, outside tier R, reported separately
                on_boundary = True
                for _ in range(6):
                    m2 = {k: (repr(v * (1 + rng.uniform(-1e-6, 1e-6))) if isinstance(v, float) and not k.endswith("#fac") else repr(v))
                          for k, v in c.used.items()}
                    out = explore.replay_concrete(job, m2)
                    if cl in [x for x, _ in out.get("failed", [])]:
                        on_boundary = False
                        break
                if on_boundary:
                    boundary[(jid, cl)] += 1
                    continue
                fails[(jid, cl)] += 1
                examples.setdefault((jid, cl), (note, dict(c.used)))
        live += bool(seen)
    return dict(jobs=sum(1 for j in jobs if filt in j), live=live, ran=ran, fails=fails, boundary=boundary, examples=examples)


def main():
    mods = sys.argv[1].split(",")
    trials = int(sys.argv[2]) if len(sys.argv) > 2 else 20
    filt = sys.argv[3] if len(sys.argv) > 3 else ""
    r = crosscheck(mods, trials, filt)
    fails, examples = r["fails"], r["examples"]
    print(f"jobs={r['jobs']} with-concrete-mode={r['live']} native-runs={r['ran']} failing (job, clause) pairs={len(fails)} rounding-at-a-decision-boundary={len(r['boundary'])}")
    groups = collections.Counter((k[1]) for k in fails)
    for cl, n in groups.most_common(40):
        k = next(kk for kk in fails if kk[1] == cl)
        print(f"  {n:5d} jobs  clause={cl!r}\n         e.g. {k[0]}  note={examples[k][0]}  inputs={ {a: b for a, b in list(examples[k][1].items())[:10]} }")
    return 1 if fails else 0

if __name__ == "__main__":
    sys.exit(main())
