#!/usr/bin/env python3
"""Systematic mutation run (strength measure, not a check): single-point AST mutations of the functions under contract are
written to a scratch worktree of /repo's HEAD (never to /repo) and the checks of the properties anchored in the mutated
file are run with PYCV_REPO=<worktree>.  killed = some check exits 1 (VIOLATION); engine = exit 3 and no exit 1;
survived = every check exits 0 -> to be read by a human: an equivalent mutant, or a gap in the contracts / the engine.
usage: tools/mutate.py <n mutants> [seed] [file filter]        writes /tmp/mutation_report.json"""
import ast, copy, json, os, random, subprocess, sys, tempfile, time

ROOT = os.path.dirname(os.path.dirname(os.path.abspath(__file__)))
TARGETS = {   # file -> (functions or None = all, properties whose checks run)
    "gearpy/solver.py": (None, ["C01", "C02", "C03", "C11", "C13", "C16", "C17", "C12"]),
    "gearpy/mechanical_objects/dc_motor.py": (["compute_torque", "compute_electric_current", "update_time_variables", "pwm", "__init__"], ["C08", "C14", "C17", "C19"]),
    "gearpy/utils/relations.py": (None, ["C10"]),
    "gearpy/powertrain.py": (["__init__", "reset", "snapshot", "export_time_variables", "update_time", "self_locking", "elements"], ["C20", "C12", "C18", "C17"]),
    "gearpy/motor_control/pwm_control.py": (None, ["C14"]),
    "gearpy/motor_control/rules/utils.py": (None, ["C15"]),
    "gearpy/motor_control/rules/reach_angular_position.py": (["apply"], ["C15"]),
    "gearpy/motor_control/rules/start_proportional_to_angular_position.py": (["apply"], ["C15"]),
    "gearpy/motor_control/rules/start_limit_current.py": (["apply"], ["C15"]),
    "gearpy/motor_control/rules/constant_pwm.py": (["apply"], ["C15"]),
    "gearpy/sensors/timer.py": (["is_active"], ["C15"]),
    "gearpy/utils/stop_condition/stop_condition.py": (["check_condition"], ["C16"]),
    "gearpy/utils/stop_condition/operator.py": (None, ["C16"]),
    "gearpy/mechanical_objects/spur_gear.py": (["compute_tangential_force", "compute_bending_stress", "compute_contact_stress", "update_time_variables"], ["C09", "C17"]),
    "gearpy/mechanical_objects/helical_gear.py": (["__init__", "compute_contact_stress"], ["C09"]),
    "gearpy/mechanical_objects/worm_wheel.py": (["compute_tangential_force", "compute_bending_stress"], ["C09"]),
    "gearpy/mechanical_objects/worm_gear.py": (["compute_tangential_force", "update_time_variables"], ["C09", "C17"]),
    "gearpy/units/unit_base.py": (None, ["C05", "C06"]),
    "gearpy/units/units.py": (["to", "__mul__", "__truediv__", "__sub__", "__add__", "__init__"], ["C05", "C06", "C19"]),
    "gearpy/utils/export.py": (None, ["C18"]),
}
SWAP_BIN = {ast.Add: ast.Sub, ast.Sub: ast.Add, ast.Mult: ast.Div, ast.Div: ast.Mult}
SWAP_CMP = {ast.Lt: ast.LtE, ast.LtE: ast.Lt, ast.Gt: ast.GtE, ast.GtE: ast.Gt, ast.Eq: ast.NotEq, ast.NotEq: ast.Eq, ast.Is: ast.IsNot, ast.IsNot: ast.Is}
SWAP_ATTR = {"driving_torque": "load_torque", "load_torque": "driving_torque", "drives": "driven_by", "driven_by": "drives",
             "angular_position": "angular_speed", "angular_speed": "angular_position", "master": "slave", "slave": "master",
             "master_gear_ratio": "master_gear_efficiency", "master_gear_efficiency": "master_gear_ratio",
             "no_load_electric_current": "maximum_electric_current", "maximum_electric_current": "no_load_electric_current",
             "module": "face_width", "face_width": "module", "sin": "cos", "cos": "sin"}


def sites(tree, funcs):
    """-> list of (description, mutator(tree_copy_node))  identified by (lineno, col, kind)"""
    out = []
    for fn in ast.walk(tree):
        if not isinstance(fn, (ast.FunctionDef,)) or (funcs is not None and fn.name not in funcs):
            continue
        for node in ast.walk(fn):
            if isinstance(node, ast.Constant) and isinstance(node.value, str):
                continue
            key = (getattr(node, "lineno", 0), getattr(node, "col_offset", 0), getattr(node, "end_col_offset", 0), getattr(node, "end_lineno", 0), type(node).__name__)
            if isinstance(node, ast.BinOp) and type(node.op) in SWAP_BIN:
                out.append((fn.name, key, "binop"))
            elif isinstance(node, ast.Compare) and len(node.ops) == 1 and type(node.ops[0]) in SWAP_CMP:
                out.append((fn.name, key, "cmp"))
            elif isinstance(node, ast.BoolOp):
                out.append((fn.name, key, "boolop"))
            elif isinstance(node, ast.Constant) and isinstance(node.value, (int, float)) and not isinstance(node.value, bool):
                out.append((fn.name, key, "const"))
            elif isinstance(node, ast.Attribute) and node.attr in SWAP_ATTR:
                out.append((fn.name, key, "attr"))
            elif isinstance(node, ast.UnaryOp) and isinstance(node.op, (ast.USub, ast.Not)):
                out.append((fn.name, key, "unary"))
            elif isinstance(node, ast.AugAssign) and type(node.op) in SWAP_BIN:
                out.append((fn.name, key, "augassign"))
            elif isinstance(node, ast.Subscript) and isinstance(node.slice, ast.BinOp):
                pass
    return out


def apply(tree, site):
    fname, key, kind = site
    for fn in ast.walk(tree):
        if not isinstance(fn, ast.FunctionDef) or fn.name != fname:
            continue
        for node in ast.walk(fn):
            k = (getattr(node, "lineno", 0), getattr(node, "col_offset", 0), getattr(node, "end_col_offset", 0), getattr(node, "end_lineno", 0), type(node).__name__)
            if k != key:
                continue
            if kind == "binop":
                old = type(node.op).__name__; node.op = SWAP_BIN[type(node.op)](); return f"{old}->{type(node.op).__name__}"
            if kind == "augassign":
                old = type(node.op).__name__; node.op = SWAP_BIN[type(node.op)](); return f"aug {old}->{type(node.op).__name__}"
            if kind == "cmp":
                old = type(node.ops[0]).__name__; node.ops = [SWAP_CMP[type(node.ops[0])]()]; return f"{old}->{type(node.ops[0]).__name__}"
            if kind == "boolop":
                old = type(node.op).__name__; node.op = ast.Or() if isinstance(node.op, ast.And) else ast.And(); return f"{old}->{type(node.op).__name__}"
            if kind == "const":
                old = node.value; node.value = {0: 1, 1: 2, -1: 1, 2: 1}.get(node.value, node.value + 1); return f"const {old}->{node.value}"
            if kind == "attr":
                old = node.attr; node.attr = SWAP_ATTR[node.attr]; return f".{old}->.{node.attr}"
            if kind == "unary":
                return "drop-unary", setattr(node, "op", ast.UAdd()) if isinstance(node.op, ast.USub) else setattr(node, "op", ast.Not() if False else ast.Invert()) or "drop"
    return None


def main():
    n = int(sys.argv[1]); seed = int(sys.argv[2]) if len(sys.argv) > 2 else 1; filt = sys.argv[3] if len(sys.argv) > 3 else ""
    rng = random.Random(seed)
    wt = tempfile.mkdtemp(prefix="mut_", dir="/tmp"); os.rmdir(wt)
    subprocess.run(["git", "-C", "/repo", "worktree", "add", "-q", wt, "HEAD"], check=True)
    all_sites = []
    srcs = {}
    for f, (funcs, props) in TARGETS.items():
        if filt not in f:
            continue
        src = open(os.path.join(wt, f)).read(); srcs[f] = src
        for s in sites(ast.parse(src), funcs):
            if s[2] != "unary":
                all_sites.append((f, s))
    rng.shuffle(all_sites)
    # spread over files: round-robin by file
    byfile = {}
    for f, s in all_sites:
        byfile.setdefault(f, []).append(s)
    chosen = []
    while len(chosen) < n and any(byfile.values()):
        for f in list(byfile):
            if byfile[f] and len(chosen) < n:
                chosen.append((f, byfile[f].pop()))
    report = []
    t00 = time.time()
    try:
        for idx, (f, s) in enumerate(chosen):
            tree = ast.parse(srcs[f])
            what = apply(tree, s)
            if not what:
                continue
            what = what if isinstance(what, str) else what[0]
            path = os.path.join(wt, f)
            open(path, "w").write(ast.unparse(tree) + "\n")
            verdict, by, rcs = "survived", None, {}
            try:
                subprocess.run(["/venv/bin/python", "-c", "import gearpy"], cwd=wt, check=True, capture_output=True, timeout=120)
            except Exception:
                verdict = "does-not-import"
            if verdict == "survived":
                for p in TARGETS[f][1]:
                    r = subprocess.run(["./check", p], cwd=ROOT, env=dict(os.environ, PYCV_REPO=wt, PYCV_EVIDENCE_DIR="/tmp/mutation_evidence"),
                                       capture_output=True, text=True)
                    rcs[p] = r.returncode
                    if r.returncode == 1:
                        verdict, by = "killed", p
                        break
                if verdict != "killed" and any(v in (2, 3) for v in rcs.values()):
                    verdict = "engine/undecided"
            open(path, "w").write(srcs[f])
            rec = dict(file=f, function=s[0], line=s[1][0], mutation=what, verdict=verdict, killed_by=by, exit_codes=rcs)
            report.append(rec)
            print(f"[{idx + 1}/{len(chosen)} {time.time() - t00:.0f}s] {f}:{s[1][0]} {s[0]} {what}: {verdict} {by or rcs}", flush=True)
            json.dump(report, open(os.environ.get("MUT_REPORT", "/tmp/mutation_report.json"), "w"), indent=1)
    finally:
        subprocess.run(["git", "-C", "/repo", "worktree", "remove", "--force", wt])
    k = sum(r["verdict"] == "killed" for r in report)
    print(f"mutants={len(report)} killed={k} engine/undecided={sum(r['verdict'] == 'engine/undecided' for r in report)} "
          f"survived={sum(r['verdict'] == 'survived' for r in report)} not-importable={sum(r['verdict'] == 'does-not-import' for r in report)}")


if __name__ == "__main__":
    main()
