#!/bin/bash
# Mutation self-test: every kept seeded change (seeded/<id>/patch.diff) is applied to a scratch worktree of /repo's
# HEAD (never to /repo itself) and the check of its property must report a VIOLATION (exit 1).
# usage: tools/selftest.sh [ids...]     exit 0 = every seeded change is caught
cd "$(dirname "$0")/.."
ids=${@:-$(ls seeded)}
fail=0
for id in $ids; do
  wt=$(mktemp -d /tmp/selftest_XXXX)
  rmdir "$wt"
  git -C /repo worktree add -q "$wt" HEAD || { echo "$id: cannot create worktree"; fail=1; continue; }
  if ! git -C "$wt" apply "$PWD/seeded/$id/patch.diff" 2>/dev/null; then
    echo "$id: patch does not apply to /repo HEAD (skipped)"; git -C /repo worktree remove --force "$wt"; continue
  fi
  prop=$(python3 -c "import json;print(json.load(open('seeded/$id/meta.json'))['property'])")
  out=$(PYCV_REPO="$wt" PYCV_EVIDENCE_DIR=/tmp/selftest_evidence ./check $prop 2>&1); rc=$?
  nv=$(echo "$out" | grep -c "^VIOLATION")
  echo "$id ($prop): rc=$rc violations=$nv $( [ $rc -eq 1 ] && echo CAUGHT || echo MISSED )"
  [ $rc -eq 1 ] || fail=1
  git -C /repo worktree remove --force "$wt"
done
exit $fail
