#!/usr/bin/env python3
"""Debug: run the jobs of some contract modules (optionally filtered) and print every clause."""
import os, sys
ROOT = os.path.dirname(os.path.dirname(os.path.abspath(__file__)))
sys.path.insert(0, ROOT)
from pycv import run as R
if __name__ == "__main__":
    mods = sys.argv[1].split(",")
    filt = sys.argv[2] if len(sys.argv) > 2 else ""
    jobs = R._load_jobs(None, mods)
    ids = sorted(j for j in jobs if filt in j and not j.startswith("units."))
    res, _ = R.run_jobs(ids, mods, progress=False, chunk=1, timeout_ms=int(os.environ.get("TO", "10000")))
    for r in res:
        print(f"== {r['job']} paths={r['paths']} wall={r['wall_s']:.2f}s missing={r['missing_covers']}")
        if r["engine_error"]:
            print("   ENGINE-ERROR", r["engine_error"])
        for cl in r["clauses"]:
            flag = "" if cl["status"] == "discharged" else f"   <<<<<< {cl['model'] if os.environ.get('MODEL') else ''} {cl['note'] or ''}"
            print(f"   {cl['status']:<11} {cl['clause']:<70} vcs={cl['vcs']} t={cl['time_s']:.2f}{flag}")
