#!/bin/bash
# tools/add_seeded.sh <id> <worktree>  -- copies patch+demo from an agent's worktree into seeded/<id>/ and runs the self-test
id=$1; wt=$2
mkdir -p /verif/seeded/$id
cp $wt/patch.diff /verif/seeded/$id/patch.diff
cp $wt/demo_*.py /verif/seeded/$id/ 2>/dev/null
[ -f /verif/seeded/$id/meta.json ] || echo "{\"property\": \"${id%%-*}\"}" > /verif/seeded/$id/meta.json
cd /verif && tools/selftest.sh $id
