#!/bin/bash
# My own confirmation of a seeded change: in a scratch worktree of /repo's HEAD the demo must fail with the change and pass
# without it, and the full test suite must pass with the change.  Appends one line per id to /tmp/confirm_suites.log.
# usage: tools/confirm_seeded.sh <id>...
for id in "$@"; do
  wt=$(mktemp -d /tmp/confirm_XXXX); rmdir $wt
  git -C /repo worktree add -q $wt HEAD
  git -C $wt apply /verif/seeded/$id/patch.diff || { echo "$id: apply failed" >> /tmp/confirm_suites.log; git -C /repo worktree remove --force $wt; continue; }
  d=$(ls /verif/seeded/$id/demo_*.py | head -1)
  (cd $wt && PYTHONPATH=$wt /venv/bin/python $d >/dev/null 2>&1); a=$?
  r=$(cd $wt && /venv/bin/python -m pytest -q -p no:cacheprovider -n ${NPROC:-6} --timeout=900 2>&1 | tail -1)
  git -C $wt checkout -q -- .
  (cd $wt && PYTHONPATH=$wt /venv/bin/python $d >/dev/null 2>&1); b=$?
  echo "$id (HEAD $(git -C /repo rev-parse --short HEAD) + seeded/$id/patch.diff): demo rc with=$a without=$b; suite: $r" >> /tmp/confirm_suites.log
  git -C /repo worktree remove --force $wt
done
